"""C04 / DMAP tags — correspondence + direct oracle.

Real code driven: pyatv.protocols.dmap.tags (uint8/16/32/64_tag, bool_tag, string_tag, raw_tag,
container_tag) and pyatv.protocols.dmap.parser.parse with (A) a harness lookup table (the
`tag_lookup` parameter) and (B) the real pyatv.protocols.dmap.tag_definitions.lookup_tag, whose
table is read from the module and handed to the model.
Model lines (Driver/C04Dmap.lean): `table …` | `enc <items>` | `parse <hex>`.

Case kinds
  enc      a typed tree (uint 1/2/4/8 at 0/1/top-bit/max, bool, strings incl. empty and non-ASCII
           (2/3/4-byte UTF-8), raw, containers nested to depth 4 quick / 6 thorough, empty
           containers): encoder bytes, parse of them, typed round trip, reference encoder
  variant  legal streams the writers never emit (integers of 0/3/5/16 bytes, bools of 4 bytes or
           value 2, …) written by the reference encoder: parse vs model vs reference decoder
  range    an integer that does not fit its writer (OverflowError on both sides)
  bad      truncated streams, corrupted length fields, invalid UTF-8 in names / strings, random
           bytes (model comparison: value or error class)
The reference encoder/decoder is written from docs/documentation/protocols.md ("DMAP Binary
Format": key 4 bytes, length 4 bytes unsigned = length of the data, data; containers nest), incl.
its worked decoding example.
"""
import logging

PROPS_FILES = ["PyatvModel/Props/C04Dmap.lean"]
LEAN_TARGETS = ["PyatvModel.Props.C04Dmap", "PyatvModel.C04.Dmap.Driver"]
DRIVER = "Driver/C04Dmap.lean"
RULE = ("typed trees over a table of container/uint/bool/str/raw tags (harness table and the real tag_definitions "
        "table): depth <= 4 (6 thorough), 0..4 children, integers at 0/1/2^(8w-1)/2^(8w)-1/random for w in 1,2,4,8, "
        "strings from {'', ASCII, 2/3/4-byte UTF-8, 255/256 chars}, raw 0..300 bytes; odd-width legal variants; "
        "out-of-range integers; truncations, corrupted lengths, invalid UTF-8, random bytes. non-trivial = contains a "
        "container, a non-ASCII or empty string, or is a variant/malformed case; distinct = (kind, table, tree / bytes)")
ASSUMPTIONS = [
    "dmap: _parse recurses once per tag (siblings included), so more than ~950 tags in one buffer raise "
    "RecursionError in Python; the model has an explicit budget (2000) and generated cases stay far from both limits",
    "dmap: tag names are 4 ASCII characters (protocols.md: 'a 4 byte ASCII-string'); UTF-8 validity is a parameter of "
    "the theorems and CPython's strict decoder in the driver",
    "dmap: read_bplist tags (plistlib) are outside the modelled kinds and are not generated",
]
TRUSTED = ["harness/c04_dmap.py reference DMAP encoder/decoder (written from protocols.md 'DMAP Binary Format')"]

TABLE_A = {"cmst": "c", "mlcl": "c", "mlit": "c", "caci": "c", "mstt": "u", "cmsr": "u", "cmvo": "u", "miid": "u",
           "cavc": "b", "cafe": "b", "cann": "s", "cana": "s", "minm": "s", "canp": "r", "ceQu": "r", "xxig": "i"}
STRINGS = ["", "a", "Apple TV", "é", "éa", "aé", "日本語", "😀", "a😀é日", "ü" * 255, "x" * 256, "é" * 128, "\x00", "naïve café"]
DOC_HEX = "636d7374000000186d73747400000004000000c8636d73720000000400000019"


def _hex(b):
    return bytes(b).hex() if b else "-"


def _obs(fn, *a):
    try:
        return ("ok", fn(*a))
    except RecursionError:
        return ("err", "RecursionError")
    except Exception as e:
        return ("err", type(e).__name__)


def real_table():
    """name -> kind for the real lookup table.  Names: keys of the module-level dict(s) of
    DmapTag values in tag_definitions (whatever they are called; 4-character string literals of
    the module source as a fallback).  Kinds are determined BEHAVIOURALLY through the public
    `lookup_tag`: "container", or what the tag's reader returns for a one-byte probe."""
    import inspect
    import re

    from pyatv.protocols.dmap import parser, tag_definitions

    names = set()
    for val in vars(tag_definitions).values():
        if isinstance(val, dict) and val and all(isinstance(v, parser.DmapTag) for v in val.values()):
            names.update(k for k in val if isinstance(k, str))
    if not names:
        names.update(re.findall(r"[\"']([A-Za-z0-9]{4})[\"']", inspect.getsource(tag_definitions)))
    out = {}
    default = tag_definitions.lookup_tag("\x00\x00\x00\x00")
    for name in sorted(names):
        if len(name.encode()) != 4:
            continue
        tag = tag_definitions.lookup_tag(name)
        if tag == default:
            continue                      # not in the table (its kind is the default anyway)
        if tag.type == "container":
            out[name] = "c"
            continue
        try:
            one, two = tag.type(b"\x01", 0, 1), tag.type(b"\x02", 0, 1)
        except Exception:
            continue                      # e.g. read_bplist: not a modelled kind
        kind = {(True, False): "b", (1, 2): "u", ("\x01", "\x02"): "s", ("0x01", "0x02"): "r", (None, None): "i"}
        k = next((v for key, v in kind.items() if (one, two) == key and type(one) is type(key[0])), None)
        if k is not None:
            out[name] = k
    return out


def make_lookup(table):
    from pyatv.protocols.dmap import parser, tags

    fns = {"u": tags.read_uint, "b": tags.read_bool, "s": tags.read_str, "r": tags.read_bytes,
           "i": tags.read_ignore, "c": "container"}

    def lookup(name):
        return parser.DmapTag(fns[table.get(name, "i")], name)

    return lookup


# ---- trees -------------------------------------------------------------------------------
def gen_tree(rng, by_kind, depth, maxdepth):
    items = []
    for _ in range(rng.choice([0, 1, 1, 2, 2, 3, 4])):
        k = rng.choice("uuubssrc" if depth < maxdepth else "uuubssr")
        if not by_kind.get(k):
            continue
        name = rng.choice(by_kind[k])
        if k == "u":
            w = rng.choice([1, 2, 4, 8])
            top = 256 ** w
            items.append(["u", w, name, rng.choice([0, 1, top // 2, top - 1, rng.randrange(top), rng.randrange(256), 200])])
        elif k == "b":
            items.append(["b", name, rng.randint(0, 1)])
        elif k == "s":
            s = rng.choice(STRINGS) if rng.chance(0.7) else "".join(
                chr(rng.choice([rng.randint(32, 126), rng.randint(0xA0, 0x7FF), rng.randint(0x800, 0xD7FF), rng.randint(0x10000, 0x10FFFF)]))
                for _ in range(rng.randint(1, 12)))
            items.append(["s", name, s])
        elif k == "r":
            items.append(["r", name, rng.bytes_(rng.choice([0, 1, 4, 8, 16, rng.randint(0, 40), 300 if rng.chance(0.1) else 3])).hex()])
        else:
            items.append(["c", name, gen_tree(rng, by_kind, depth + 1, maxdepth)])
    return items


def real_enc(items):
    from pyatv.protocols.dmap import tags

    out = b""
    for it in items:
        if it[0] == "u":
            out += {1: tags.uint8_tag, 2: tags.uint16_tag, 4: tags.uint32_tag, 8: tags.uint64_tag}[it[1]](it[2], it[3])
        elif it[0] == "b":
            out += tags.bool_tag(it[1], bool(it[2]))
        elif it[0] == "s":
            out += tags.string_tag(it[1], it[2])
        elif it[0] == "r":
            out += tags.raw_tag(it[1], bytes.fromhex(it[2]))
        else:
            out += tags.container_tag(it[1], real_enc(it[2]))
    return out


def ref_enc(items):
    """protocols.md: key (4 bytes) + length (4 bytes, of the data) + data.  `["u", w, …]` may carry any w."""
    out = b""
    for it in items:
        if it[0] == "u":
            data = it[3].to_bytes(it[1], "big")
        elif it[0] == "b":
            data = bytes([1 if it[2] else 0])
        elif it[0] == "bw":                       # variant: boolean written with another width / value
            data = it[3].to_bytes(it[2], "big")
        elif it[0] == "s":
            data = it[2].encode("utf-8")
        elif it[0] == "r":
            data = bytes.fromhex(it[2])
        else:
            data = ref_enc(it[2])
        name = it[1] if it[0] in ("b", "bw", "s", "r", "c") else it[2]
        out += name.encode("ascii") + len(data).to_bytes(4, "big") + data
    return out


def expected(items):
    """the Python value `parse` must return for a tree"""
    out = []
    for it in items:
        if it[0] == "u":
            out.append({it[2]: it[3]})
        elif it[0] == "b":
            out.append({it[1]: bool(it[2])})
        elif it[0] == "bw":
            out.append({it[1]: it[3] == 1})
        elif it[0] == "s":
            out.append({it[1]: it[2]})
        elif it[0] == "r":
            out.append({it[1]: "0x" + it[2]})
        else:
            out.append({it[1]: expected(it[2])})
    return out


def typed(v):
    """typed canonical dump (Python's True == 1 must not count as equal)"""
    if isinstance(v, list):
        return ["L"] + [typed(x) for x in v]
    if isinstance(v, dict):
        return ["D"] + [[k, typed(x)] for k, x in v.items()]
    return [type(v).__name__, v]


def tokens(items):
    out = []
    for it in items:
        if it[0] == "u":
            out += ["u", str(it[1]), it[2].encode().hex(), str(it[3])]
        elif it[0] == "b":
            out += ["b", it[1].encode().hex(), str(int(bool(it[2])))]
        elif it[0] == "s":
            out += ["s", it[1].encode().hex(), _hex(it[2].encode("utf-8"))]
        elif it[0] == "r":
            out += ["r", it[1].encode().hex(), it[2] or "-"]
        else:
            out += ["c", it[1].encode().hex(), "["] + tokens(it[2]) + ["]"]
    return out


def render(result, table):
    """same text as the Lean driver's showTree"""
    parts = []
    for d in result:
        (name, v), = d.items()
        nm = name.encode("utf-8").hex()
        if isinstance(v, list):
            parts.append(f"{nm}=[{render(v, table)[1:-1]}]")
        elif v is None:
            parts.append(nm + "=n")
        elif type(v) is bool:
            parts.append(nm + ("=b1" if v else "=b0"))
        elif type(v) is int:
            parts.append(f"{nm}=u{v}")
        elif type(v) is str and table.get(name) == "r" and v.startswith("0x"):
            parts.append(nm + "=r" + v[2:])
        elif type(v) is str:
            parts.append(nm + "=s" + v.encode("utf-8").hex())
        else:
            parts.append(nm + "=?" + type(v).__name__)
    return "[" + ",".join(parts) + "]"


def _features(items, acc=None):
    acc = acc if acc is not None else set()
    for it in items:
        if it[0] == "c":
            acc.add("container")
            if not it[2]:
                acc.add("empty-container")
            _features(it[2], acc)
        elif it[0] == "s":
            acc.add("empty-string" if it[2] == "" else ("ascii-string" if it[2].isascii() else "non-ascii-string"))
        else:
            acc.add(it[0])
    return acc


def _count(items):
    return sum(1 + (_count(it[2]) if it[0] == "c" else 0) for it in items)


def gen_cases(ctx, tables):
    rng = ctx.rng.fork("dmap")
    maxdepth = ctx.scale(4, 6)
    cases = [{"kind": "enc", "table": "A", "tree": [["s", "cann", "é"]]},                       # D6 witness
             {"kind": "enc", "table": "A", "tree": [["s", "cann", "éa"], ["u", 1, "cmvo", 5]]},
             {"kind": "enc", "table": "A", "tree": [["c", "cmst", [["u", 4, "mstt", 200], ["u", 4, "cmsr", 25]]]], "doc": DOC_HEX},
             {"kind": "enc", "table": "A", "tree": []},
             {"kind": "enc", "table": "A", "tree": [["c", "cmst", []], ["b", "cavc", 1], ["b", "cafe", 0], ["r", "canp", ""]]}]
    for tn in ("A", "B"):
        by_kind = {}
        for name, k in sorted(tables[tn].items()):
            by_kind.setdefault(k, []).append(name)
        n = ctx.scale(500, 5000) if tn == "A" else ctx.scale(250, 2500)
        for _ in range(n):
            tree = gen_tree(rng, by_kind, 0, maxdepth)
            if _count(tree) > 200:
                continue
            cases.append({"kind": "enc", "table": tn, "tree": tree})
        for _ in range(ctx.scale(40, 800)):
            # legal variants: unusual integer / boolean widths
            items = []
            for _ in range(rng.randint(1, 4)):
                if rng.chance(0.6) and by_kind.get("u"):
                    w = rng.choice([0, 3, 5, 6, 7, 9, 16])
                    items.append(["u", w, rng.choice(by_kind["u"]), rng.randrange(256 ** w) if w else 0])
                elif by_kind.get("b"):
                    w = rng.choice([1, 2, 4, 0])
                    items.append(["bw", rng.choice(by_kind["b"]), w, rng.choice([0, 1, 2, 255]) % (256 ** w) if w else 0])
            if rng.chance(0.4) and by_kind.get("c"):
                items = [["c", rng.choice(by_kind["c"]), items]]
            cases.append({"kind": "variant", "table": tn, "tree": items, "data": ref_enc(items).hex()})
        for _ in range(ctx.scale(25, 400)):
            w = rng.choice([1, 2, 4, 8])
            name = rng.choice(by_kind["u"])
            cases.append({"kind": "range", "table": tn, "tree": [["u", w, name, 256 ** w + rng.choice([0, 1, rng.randrange(1000)])]]})
        for _ in range(ctx.scale(120, 2500)):
            tree = gen_tree(rng, by_kind, 1, min(maxdepth, 3))
            data = bytearray(ref_enc(tree)[:1500])
            mode = rng.randint(0, 4)
            if mode == 0 and data:
                data = data[: rng.randint(0, len(data))]
            elif mode == 1 and len(data) >= 8:
                # corrupt one length field: small excess or (rarely) far beyond any budget
                delta = rng.choice([1, 2, 7, 8, 9, 40, 64]) if rng.chance(0.9) else 100000
                ln = int.from_bytes(data[4:8], "big") + delta
                data[4:8] = ln.to_bytes(4, "big")
            elif mode == 2 and data:
                i = rng.randrange(len(data))
                data[i] = rng.choice([0xC3, 0xFF, 0x80, 0xED, 0xF5])
            elif mode == 3:
                data = bytearray(rng.bytes_(rng.randint(1, 30)))
                for i in (4, 5):
                    if len(data) > i:
                        data[i] = 0
                if len(data) > 6:
                    data[6] = 0
            else:
                name = rng.choice(sorted(tables[tn])).encode()
                data = bytearray(name + rng.randint(0, 20).to_bytes(4, "big") + rng.bytes_(rng.randint(0, 24)))
            cases.append({"kind": "bad", "table": tn, "data": bytes(data).hex()})
    return cases


def oracle(case, tables=None):
    from pyatv.protocols.dmap import parser

    tables = tables or {"A": TABLE_A, "B": real_table()}
    table = tables[case["table"]]
    lookup = _lookup_for(case["table"], table)
    out = []
    if case["kind"] == "enc":
        tree = case["tree"]
        feats = _features(tree)
        cls = "non-ascii-string" if "non-ascii-string" in feats else "other"
        enc = _obs(real_enc, tree)
        if enc[0] != "ok" or type(enc[1]) is not bytes:
            return [(f"dmap:encode-raises:{cls}", repr(enc), "bytes", "a tag writer rejected a value of its domain")]
        dec = _obs(parser.parse, enc[1], lookup)
        want = expected(tree)
        if not (dec[0] == "ok" and typed(dec[1]) == typed(want)):
            out.append((f"dmap:roundtrip:{cls}", repr(dec)[:300], repr(want)[:300], "parse(encode(tree)) != tree (typed comparison)"))
        if enc[1] != ref_enc(tree):
            out.append((f"dmap:ref-encode:{cls}", enc[1].hex()[:300], ref_enc(tree).hex()[:300],
                        "bytes differ from the documented layout (key, 4-byte big-endian data length, data)"))
        if case.get("doc") and enc[1].hex() != case["doc"]:
            out.append(("dmap:doc-vector", enc[1].hex(), case["doc"], "bytes differ from the worked example in protocols.md"))
    elif case["kind"] == "variant":
        dec = _obs(parser.parse, bytes.fromhex(case["data"]), lookup)
        want = expected(case["tree"])
        if not (dec[0] == "ok" and typed(dec[1]) == typed(want)):
            out.append(("dmap:ref-decode", repr(dec)[:300], repr(want)[:300],
                        "parse differs from the reference decoder on a legal stream the writers never emit"))
    return out


def _lookup_for(tn, table):
    if tn == "B":
        from pyatv.protocols.dmap.tag_definitions import lookup_tag

        return lookup_tag
    return make_lookup(table)


def run(ctx, only=None):
    from pyatv.protocols.dmap import parser

    tables = {"A": TABLE_A, "B": real_table()}
    cases = only if only is not None else gen_cases(ctx, tables)
    logging.getLogger("pyatv.protocols.dmap.tag_definitions").setLevel(logging.CRITICAL)
    lines, plan = [], []
    for tn in ("A", "B"):
        table = tables[tn]
        lines.append("table i " + " ".join(f"{n.encode().hex()}={k}" for n, k in sorted(table.items())))
        plan.append(("table", tn, None, None))
        lookup = _lookup_for(tn, table)
        for c in cases:
            if c["table"] != tn:
                continue
            if c["kind"] in ("enc", "range"):
                enc = _obs(real_enc, c["tree"])
                lines.append(" ".join(["enc"] + tokens(c["tree"])))
                stream = enc[1] if enc[0] == "ok" and isinstance(enc[1], bytes) else None
                if stream is not None:
                    lines.append("parse " + _hex(stream))
                plan.append((c, tn, enc, stream))
            else:
                stream = bytes.fromhex(c["data"])
                lines.append("parse " + _hex(stream))
                plan.append((c, tn, None, stream))
    answers = iter(ctx.lean(lines, driver=DRIVER))
    for c, tn, enc, stream in plan:
        if c == "table":
            if next(answers) != "ok":
                ctx.disagree({"table": tn}, "table accepted", "bad-op", where="dmap table")
            continue
        table = tables[tn]
        lookup = _lookup_for(tn, table)
        kind = c["kind"]
        ctx.note("dmap:kind:" + kind)
        ctx.note("dmap:table:" + tn)
        if enc is not None:
            m = next(answers)
            impl = _hex(enc[1]) if enc[0] == "ok" and isinstance(enc[1], bytes) else "err:" + str(enc[1])
            if impl != m:
                ctx.disagree(_short(c), impl[:400], m[:400], where="dmap tag writers")
            ctx.validated()
        if stream is not None:
            m = next(answers)
            dec = _obs(parser.parse, stream, lookup)
            if dec[0] == "ok":
                try:
                    impl = render(dec[1], table)
                except Exception as e:
                    impl = "err:render:" + type(e).__name__
            else:
                impl = "err:" + dec[1]
            if impl != m:
                ctx.disagree(_short(c), impl[:400], m[:400], where="dmap parse")
            ctx.validated()
            ctx.note("dmap:parse:" + ("ok" if impl.startswith("[") else impl))
        feats = _features(c["tree"]) if "tree" in c and kind == "enc" else set()
        for f in feats:
            ctx.note("dmap:has:" + f)
        nontrivial = kind != "enc" or bool(feats & {"container", "non-ascii-string", "empty-string"})
        ctx.case([kind, tn, c.get("tree"), c.get("data")], nontrivial, sample=_short(c))
        for sig, observed, required, what in oracle(c, tables):
            ctx.fail(sig, c, observed, required, what)


def _short(c):
    s = dict(c)
    if "data" in s and len(s["data"]) > 120:
        s["data"] = s["data"][:100] + f"…({len(s['data']) // 2} bytes)"
    if "tree" in s and len(repr(s["tree"])) > 400:
        s["tree"] = repr(s["tree"])[:400] + "…"
    return s


def replay(ctx, failure):
    logging.getLogger("pyatv.protocols.dmap.tag_definitions").setLevel(logging.CRITICAL)
    return bool(oracle(failure["case"]))
