"""C14 — stored settings belong to exactly one device and survive save/load.

Real code driven: pyatv.storage.file_storage.FileStorage (real file in a scratch
directory under /tmp, removed afterwards) and pyatv.storage.memory_storage.MemoryStorage,
with real pyatv.conf.AppleTV / ManualService configurations, real Settings objects
(attribute assignment = `mutate`), real BaseConfig.apply.

A history is a list of JSON-able op descriptors
  ["get", cfg] ["update", cfg] ["remove", h] ["mutate", h, path, val] ["save"] ["savefail"] ["load"] ["loadfail", variant]
  ["scan", [cfg, ...], filter]   the real pyatv.scan(storage=…) with the scanner's discovery faked to return
                                 these configurations in this order; filter = None | [identifier, ...]
  ["connect", cfg] ["pair", cfg, proto]   the real pyatv.connect / pyatv.pair up to the first create_core()
                                 (spied on from the harness, then aborted: no network)
  cfg = [[proto, identifier|None, credentials|None, password|None], ...]
  h   = harness handle of a Settings object (objects are numbered in the order in which
        they first appear in storage.settings; the model numbers them the same way)
  val = None | str | int

Correspondence (every op): the result (returned handle / error class / bool), `changed`,
the handle list of storage.settings, the full content of every stored object (all declared
fields + the undeclared `password` extras), after every successful FileStorage.save() and
at the end of the history the content of a FRESH FileStorage after load(); and
BaseConfig.apply against the model's `applyTo`.

Direct oracle (independent of the model), see `Oracle`.
"""
import asyncio
import copy
import json
import os
import shutil
import tempfile

RULE = ("PRNG histories of <= 12 ops (get/update/remove/mutate/save/savefail/load) over 4 devices (identifier pools "
        "of size 3/2/1/2: upper-case MAC, mixed-case UUID, 'MAC@name' with a blank, lower-case token, leading/trailing "
        "blanks, a 420-character identifier, the empty string, a non-BMP identifier); configurations pick 1-4 "
        "protocols and identifiers of ONE device (any protocol slot, some None) — so two configurations overlap fully, "
        "partially or not at all — plus on-purpose bridging configurations (identifiers of two devices) and "
        "configurations without identifier; values from {default, '', ASCII, mixed case, leading/trailing blanks, 700-900 characters, non-BMP unicode, None}; on FileStorage and "
        "MemoryStorage; the callers pyatv.scan (faked discovery of 2-4 configurations in varying order, identifier filters that "
        "drop devices before kept ones, devices without identifier), pyatv.connect and pyatv.pair (up to create_core); fixed histories incl. the empty-storage boundary (every device removed, saved, reloaded); after every "
        "successful FileStorage.save() every stored identifier is looked up again in a FRESH storage after load().  non-trivial = the history contains a lookup that hits an existing object through a different "
        "configuration than the one that created it, or a save followed by a reload with >= 1 non-default device; "
        "distinct = (kind, history)")
ASSUMPTIONS = [
    "pydantic (v1 API) dump/parse, json and UTF-8 are trusted as observed through this correspondence",
    "SHA-256 collision-freedom (the model's hash is a parameter; injectivity is a hypothesis of changed_iff)",
    "setting values are valid for their field type (MAC syntax, enum members, None only for Optional fields); identifiers "
    "are strings",
]
TRUSTED = ["harness/c14.py object-identity -> handle numbering and content reader", "pydantic, json"]

UNI = "\U0001F34Fé"
PROTOS = ["AirPlay", "Companion", "DMAP", "MRP", "RAOP"]
PNAME = {"AirPlay": "airplay", "Companion": "companion", "DMAP": "dmap", "MRP": "mrp", "RAOP": "raop"}

# model key order (Model.lean `allKeys`)
PATHS = (["info." + f for f in ("name", "mac", "model", "device_id", "os_name", "os_build", "os_version")]
         + ["protocols.airplay." + f for f in ("identifier", "credentials", "password", "mrp_tunnel")]
         + ["protocols.%s.%s" % (p, f) for p in ("companion", "dmap", "mrp") for f in ("identifier", "credentials", "password")]
         + ["protocols.raop." + f for f in ("identifier", "credentials", "password", "protocol_version", "timing_port", "control_port")])
UNDECLARED = {"protocols.companion.password", "protocols.dmap.password", "protocols.mrp.password"}
ID_PATHS = ["protocols.%s.identifier" % p for p in ("airplay", "companion", "dmap", "mrp", "raop")]

# identifiers as real devices have them: upper-case MAC, mixed-case UUID, RAOP "MAC@name" with a
# blank, a lower-case token, leading/trailing blanks, a very long one, the empty string, non-BMP
A0, A1, A2 = "AA:BB:CC:DD:EE:FF", "4D797FD3-3538-427e-A47B-a32FC6CF3A69", "AABBCCDDEEFF@Living Room"
B0, B1 = "b0", " B1 \t"
C0 = "C0ffee-" * 60
POOLS = [[A0, A1, A2], [B0, B1], [C0], ["", "\U0001F4FAid"]]


# --------------------------------------------------------------------------- wire helpers

def w_val(v):
    if v is None:
        return "~"
    if isinstance(v, int) and not isinstance(v, bool):
        return "i%d" % v
    return "s" + str(v).encode("utf-8").hex()


def c4(cfg):
    """(proto, identifier, credentials, password) of every service; a 5th element False marks a
    DISABLED service (enabled=False) — the storage does not look at it, so the model does not either"""
    return [sv[:4] for sv in cfg]


def w_cfg(cfg):
    if not cfg:
        return "-"
    return ",".join("%s:%s:%s:%s" % (PNAME[p], w_val(i), w_val(c), w_val(pw)) for p, i, c, pw in c4(cfg))


def w_content(content):
    return ";".join("%s=%s" % (k, w_val(v)) for k, v in content) or "-"


# --------------------------------------------------------------------------- real objects

def _plain(v):
    import enum
    if isinstance(v, enum.Enum):
        return v.value
    return v


def read_key(obj, path):
    parts = path.split(".")
    cur = obj
    for p in parts[:-1]:
        cur = getattr(cur, p)
    if path in UNDECLARED:
        return _plain(cur.__dict__.get(parts[-1]))
    return _plain(getattr(cur, parts[-1]))


_DEFAULTS = {}


def defaults():
    if not _DEFAULTS:
        from pyatv.settings import Settings
        s = Settings()
        for p in PATHS:
            _DEFAULTS[p] = None if p in UNDECLARED else read_key(s, p)
    return _DEFAULTS


def content_of(obj):
    """[(path, value)] of the non-default keys, model key order (reads every attribute)."""
    d = defaults()
    out = []
    for p in PATHS:
        v = read_key(obj, p)
        if v != d[p] or type(v) is not type(d[p]):
            out.append((p, v))
    return out


def declared_content(obj):
    return [(p, v) for p, v in content_of(obj) if p not in UNDECLARED]


def ids_of(obj):
    return [v for v in (read_key(obj, p) for p in ID_PATHS) if isinstance(v, str)]


def make_conf(cfg, address="127.0.0.1"):
    from ipaddress import IPv4Address

    from pyatv import conf
    from pyatv.const import Protocol

    c = conf.AppleTV(IPv4Address(address), "verif")
    for sv in cfg:
        p, i, cr, pw = sv[:4]
        c.add_service(conf.ManualService(i, getattr(Protocol, p), 0, {}, cr, pw, enabled=(len(sv) < 5 or bool(sv[4]))))
    return c


def set_key(obj, path, val):
    from pyatv.settings import AirPlayVersion, MrpTunnel

    parts = path.split(".")
    cur = obj
    for p in parts[:-1]:
        cur = getattr(cur, p)
    if parts[-1] == "mrp_tunnel":
        val = MrpTunnel(val)
    elif parts[-1] == "protocol_version":
        val = AirPlayVersion(val)
    setattr(cur, parts[-1], val)


def services_of(conf_obj):
    return [[str(sv.protocol.name), sv.identifier, sv.credentials, sv.password] for sv in conf_obj.services]


class _Abort(Exception):
    """raised by the create_core spy: the caller under test stops before any network use"""


class _Callers:
    """Patches applied FROM THE HARNESS to the names pyatv/__init__.py uses: the scanners'
    discovery returns the given configurations (in order); create_core records what the
    caller hands to the protocol layer and aborts."""

    def __init__(self, discovered=None):
        self.discovered = discovered or []
        self.cores = []

    def __enter__(self):
        import pyatv
        outer = self

        class FakeScanner:
            def __init__(self, *a, **k):
                pass

            def add_service_info(self, *a, **k):
                pass

            def add_service(self, *a, **k):
                pass

            async def discover(self, timeout):
                return {c.address: c for c in outer.discovered}

        async def spy_create_core(config, service, *a, **k):
            outer.cores.append((config, service, k.get("settings")))
            sm = k.get("session_manager")
            if sm is not None:
                try:
                    await sm.close()
                except Exception:
                    pass
            raise _Abort()

        self._saved = {n: getattr(pyatv, n) for n in ("MulticastMdnsScanner", "UnicastMdnsScanner", "ZeroconfMulticastScanner",
                                                       "ZeroconfUnicastScanner", "create_core") if hasattr(pyatv, n)}
        for n in self._saved:
            setattr(pyatv, n, spy_create_core if n == "create_core" else FakeScanner)
        return self

    def __exit__(self, *exc):
        import pyatv
        for n, v in self._saved.items():
            setattr(pyatv, n, v)
        return False


class _FailOpen:
    """Every write-mode open below `root` raises OSError (a save whose file I/O fails)."""

    def __init__(self, root):
        self.root = os.path.realpath(root)

    def __enter__(self):
        import builtins
        import io
        self._b, self._i = builtins.open, io.open
        real, root = self._b, self.root

        def open_(file, mode="r", *a, **k):
            if not isinstance(file, int) and any(c in mode for c in "wax+"):
                rp = os.path.realpath(os.fspath(file))
                if rp.startswith(root + os.sep):
                    raise OSError(28, "No space left on device (injected by harness/c14.py)")
            return real(file, mode, *a, **k)

        builtins.open = open_
        io.open = open_
        return self

    def __exit__(self, *exc):
        import builtins
        import io
        builtins.open, io.open = self._b, self._i
        return False


# --------------------------------------------------------------------------- oracle

class Oracle:
    """The property evaluated on the real objects, without the model.

    lookup-sound     get(cfg) never returns a stored object whose identifiers are disjoint
                     from cfg's; an object it creates carries only identifiers of cfg
    lookup-complete  when a stored object shares an identifier with cfg, no object is
                     created; when exactly one does (non-bridging cfg) that object is
                     returned: the same object for every such cfg
    changed          content (declared fields) differs from last successful save/load
                     => changed; content identical in every key => not changed
    roundtrip        after a successful save(), a fresh FileStorage that load()s the file
                     holds, in order, exactly the devices with a non-default declared field,
                     every declared field identical
    """

    def __init__(self, kind):
        self.kind = kind
        self.problems = []
        self.snap_full = []
        self.snap_decl = []

    @staticmethod
    def canon_decl(objs):
        return [d for d in (declared_content(o) for o in objs) if d]

    def mark(self, storage):
        self.snap_full = [content_of(o) for o in storage.settings]
        self.snap_decl = self.canon_decl(storage.settings)

    def problem(self, sig, observed, required, what):
        self.problems.append((sig, observed, required, what))

    def check_get(self, before, before_ids, cfg, result, storage):
        cids = [i for _p, i, _c, _pw in c4(cfg) if i is not None]
        sharing = [o for o, oi in zip(before, before_ids) if set(oi) & set(cids)]
        was_stored = any(result is o for o in before)
        if was_stored:
            oi = before_ids[[o is result for o in before].index(True)]
            if not set(oi) & set(cids):
                self.problem("lookup-sound:disjoint-object-returned", {"object_ids": oi, "config_ids": cids},
                             "a shared identifier", "get_settings returned the settings of a device with disjoint identifiers")
        else:
            if sharing:
                self.problem("lookup-complete:duplicate-created", {"config_ids": cids, "stored": [ids_of(o) for o in sharing]},
                             "the stored object", "get_settings created a new object although a stored one shares an identifier")
            if not set(ids_of(result)) <= set(cids):
                self.problem("lookup-sound:foreign-identifier-in-new-object", ids_of(result), cids,
                             "a newly created settings object carries identifiers that are not the configuration's")
        if len(sharing) == 1:
            # exactly one stored device shares an identifier: THE object of that device.  (For a
            # bridging configuration — several sharing devices — the property does not say which
            # one; only soundness / no-creation are demanded here, the model pins "earliest".)
            if result is not sharing[0]:
                self.problem("lookup-complete:not-the-device-object",
                             {"config_ids": cids, "expected_ids": before_ids[[o is sharing[0] for o in before].index(True)],
                              "returned_ids": ids_of(result)}, "the stored object sharing an identifier",
                             "a configuration sharing an identifier with a stored device did not get that device's object")
        if sharing:
            if len(storage.settings) != len(before):
                self.problem("lookup-complete:storage-grew", len(storage.settings), len(before),
                             "lookup of a known device changed the number of stored devices")

    def check_known(self, cfg, obj, before, result_of):
        """right after update(cfg) / a get(cfg) that created `obj`, every identifier of cfg (of
        enabled and disabled services alike) identifies that device: a configuration consisting
        of that one identifier gets `obj` — or an object stored before it that shares the
        identifier (bridging) — and nothing new is created."""
        for ident in sorted({i for _p, i, _c, _pw in c4(cfg) if i is not None}):
            got, created = result_of(ident)
            earlier = [o for o in before if ident in ids_of(o)]
            if created:
                self.problem("lookup-complete:identifier-of-stored-device-unknown", {"identifier": ident, "config": c4(cfg)},
                             "the object of the device",
                             "a configuration sharing an identifier with a device that was just stored does not get that "
                             "device's object: a new, blank object is created")
            elif got is not obj and not any(got is o for o in earlier):
                self.problem("lookup-complete:identifier-of-stored-device-gives-other-object", {"identifier": ident, "config": c4(cfg)},
                             "the object of the device", "a configuration sharing an identifier with a device that was just stored gets another object")

    def check_applied(self, cfg, after, storage, where):
        """credentials saved for one device are never applied to another: every credential /
        password a caller put on a configuration (value differs from what the configuration
        came with) must be the value stored for a device sharing an identifier with it."""
        cids = {i for _p, i, _c, _pw in c4(cfg) if i is not None}
        sharing = [o for o in storage.settings if set(ids_of(o)) & cids]
        orig = {p: (c, pw) for p, _i, c, pw in c4(cfg)}
        for p, _i, c, pw in after:
            for field, now, was in (("credentials", c, orig.get(p, (None, None))[0]), ("password", pw, orig.get(p, (None, None))[1])):
                if now == was:
                    continue
                allowed = [read_key(o, "protocols.%s.%s" % (PNAME[p], field)) for o in sharing]
                if now not in allowed:
                    owners = [ids_of(o) for o in storage.settings
                              if read_key(o, "protocols.%s.%s" % (PNAME[p], field)) == now and not (set(ids_of(o)) & cids)]
                    self.problem("%s:credentials-of-another-device-applied" % where,
                                 {"config_ids": sorted(cids), "protocol": p, "field": field, "applied": now, "stored_for_device": owners},
                                 "only values stored for a device sharing an identifier with the configuration",
                                 "%s put %s on a configuration that were stored for a device with disjoint identifiers" % (where, field))

    def check_changed(self, storage, changed):
        full = [content_of(o) for o in storage.settings]
        decl = self.canon_decl(storage.settings)
        if decl != self.snap_decl and not changed:
            self.problem("changed:false-although-content-differs", {"now": decl, "saved": self.snap_decl}, True,
                         "changed is False although the stored content differs from what was last saved/loaded")
        if full == self.snap_full and changed:
            self.problem("changed:true-although-content-identical", full, False,
                         "changed is True although the content is identical to what was last saved/loaded")

    def check_roundtrip(self, storage, fresh_objs, err, lookups=()):
        if err is not None:
            self.problem("roundtrip:load-raises", err, "loads", "the saved file does not load into a fresh FileStorage")
            return
        a, b = self.canon_decl(storage.settings), self.canon_decl(fresh_objs)
        if a != b:
            self.problem("roundtrip:content-differs", {"stored": a, "reloaded": b}, "identical",
                         "settings read back from a fresh storage differ from what was stored")
        # the same configuration after the reload: a stored device is found again (no new
        # object) and carries what was stored for it
        for ident, want, got, created in lookups:
            if created:
                self.problem("roundtrip:lookup-after-reload-creates-new-object", {"identifier": ident, "stored": want}, "the reloaded device",
                             "after save() and load() into a fresh storage a configuration with a stored identifier does not find its "
                             "device: a blank object is created and the stored credentials are not applied")
            elif got != want:
                self.problem("roundtrip:lookup-after-reload-differs", {"identifier": ident, "stored": want, "reloaded": got}, "identical",
                             "after save() and load() into a fresh storage a configuration gets settings that differ from those stored for it")


# --------------------------------------------------------------------------- executing a history on the real code

def execute(kind, ops, loop):
    """Returns (observations, oracle problems [(op index, sig, observed, required, what)], probes)."""
    from pyatv.storage.file_storage import FileStorage
    from pyatv.storage.memory_storage import MemoryStorage

    root = tempfile.mkdtemp(prefix="verif-c14-", dir="/tmp")
    path = os.path.join(root, "pyatv.conf")
    obs, problems, applies = [], [], []
    try:
        storage = FileStorage(path, loop) if kind == "file" else MemoryStorage()
        oracle = Oracle(kind)
        oracle.mark(storage)
        handles, objs = {}, []

        def number():
            for o in storage.settings:
                if id(o) not in handles:
                    handles[id(o)] = len(objs)
                    objs.append(o)

        def status():
            try:
                ch = bool(storage.changed)
            except Exception as e:
                ch = "raises:" + type(e).__name__
            return ch, [handles[id(o)] for o in storage.settings]

        def fresh(probe=False):
            st = FileStorage(path, loop)
            try:
                loop.run_until_complete(st.load())
            except Exception as e:
                return None, type(e).__name__, []
            fo = list(st.settings)
            lookups = []
            if probe:
                # one lookup per stored identifier, through the original and through the fresh storage
                seen = set()
                for o in list(storage.settings):
                    for ident in ids_of(o):
                        if ident in seen:
                            continue
                        seen.add(ident)
                        cfgp = [["MRP", ident, None, None]]
                        try:
                            orig = loop.run_until_complete(storage.get_settings(make_conf(cfgp)))
                            n = len(st.settings)
                            re_ = loop.run_until_complete(st.get_settings(make_conf(cfgp)))
                            lookups.append((ident, declared_content(orig), declared_content(re_), len(st.settings) != n))
                        except Exception:
                            pass
            return fo, None, lookups

        for idx, op in enumerate(ops):
            kind_op = op[0]
            res, reloaded, extra = "?", None, {}
            oracle.problems = []
            try:
                if kind_op in ("get", "update"):
                    before = list(storage.settings)
                    before_ids = [ids_of(o) for o in before]
                    conf_obj = make_conf(op[1])
                    try:
                        def result_of(ident):
                            n = len(storage.settings)
                            g = loop.run_until_complete(storage.get_settings(make_conf([["DMAP", ident, None, None]])))
                            return g, len(storage.settings) != n

                        if kind_op == "get":
                            r = loop.run_until_complete(storage.get_settings(conf_obj))
                            number()
                            if not any(r is o for o in before):
                                oracle.check_known(op[1], r, before, result_of)
                            res = "h%d" % handles.get(id(r), -1)
                            oracle.check_get(before, before_ids, op[1], r, storage)
                            # BaseConfig.apply with the object handed out
                            c2 = copy.deepcopy(conf_obj)
                            c2.apply(r)
                            applies.append((content_of(r), op[1],
                                            [[str(s.protocol.name), s.identifier, s.credentials, s.password] for s in c2.services]))
                        else:
                            loop.run_until_complete(storage.update_settings(conf_obj))
                            res = "ok"
                            cids = {i for _p, i, _c, _pw in c4(op[1]) if i is not None}
                            tgt = next((o for o in storage.settings if set(ids_of(o)) & cids), None)
                            if tgt is not None:
                                pos = [n for n, o in enumerate(storage.settings) if o is tgt][0]
                                oracle.check_known(op[1], tgt, list(storage.settings)[:pos], result_of)
                                # "whatever … credentials have been stored": what update_settings was given
                                # for the device IS what is stored for it — for every value class, the
                                # empty string included (None means "nothing to store")
                                sharing_now = [o for o in storage.settings if set(ids_of(o)) & cids]
                                protos = [p_ for p_, _i, _c, _pw in c4(op[1])]
                                if len(sharing_now) == 1 and len(set(protos)) == len(protos):
                                    for p_, _i, c_, pw_ in c4(op[1]):
                                        for field, val in (("credentials", c_), ("password", pw_)):
                                            kpath = "protocols.%s.%s" % (PNAME[p_], field)
                                            if val is None or kpath not in PATHS or kpath in UNDECLARED:
                                                continue
                                            got_v = read_key(tgt, kpath)
                                            if got_v != val:
                                                oracle.problem("roundtrip:update-value-not-stored", {"key": kpath, "stored": got_v},
                                                               val, "update_settings did not store the value it was given")
                    except Exception as e:
                        res = "err:" + type(e).__name__
                elif kind_op == "scan":
                    import pyatv
                    confs = [make_conf(c, "10.0.0.%d" % (n + 1)) for n, c in enumerate(op[1])]
                    filt = op[2]
                    ident = None if not filt else (filt[0] if len(filt) == 1 else set(filt))
                    before = list(storage.settings)
                    with _Callers(discovered=confs):
                        returned = loop.run_until_complete(pyatv.scan(loop, identifier=ident, storage=storage))
                    number()
                    idx_of = {id(c): n for n, c in enumerate(confs)}
                    ret_idx = [idx_of.get(id(c), -1) for c in returned]
                    res = "ok"
                    mlines = ["get " + w_cfg(op[1][n]) for n in ret_idx if n >= 0]
                    ians = ["*"] * len(mlines)
                    for n, c in enumerate(confs):
                        oracle.check_applied(op[1][n], services_of(c), storage, "scan")
                    for n in ret_idx:
                        if n < 0:
                            continue
                        cids = {i for _p, i, _c, _pw in c4(op[1][n]) if i is not None}
                        hit = next((o for o in storage.settings if set(ids_of(o)) & cids), None)
                        if hit is not None:
                            applies.append((content_of(hit), op[1][n], services_of(confs[n])))
                    extra = {"mlines": mlines, "ians": ians, "returned": ret_idx}
                elif kind_op in ("connect", "pair"):
                    import pyatv
                    from pyatv.const import Protocol
                    conf_obj = make_conf(op[1])
                    before = list(storage.settings)
                    before_ids = [ids_of(o) for o in before]
                    mlines, ians = [], []
                    with _Callers() as cal:
                        try:
                            if kind_op == "connect":
                                loop.run_until_complete(pyatv.connect(conf_obj, loop, storage=storage))
                            else:
                                loop.run_until_complete(pyatv.pair(conf_obj, getattr(Protocol, op[2]), loop, storage=storage))
                            res = "returned"
                        except _Abort:
                            res = "core"
                        except Exception as e:
                            res = "err:" + type(e).__name__
                    number()
                    grew = len(storage.settings) != len(before)
                    if cal.cores:
                        cconf, _svc, sett = cal.cores[0]
                        mlines = ["get " + w_cfg(op[1])]
                        ians = ["h%d" % handles.get(id(sett), -1)]
                        if any(sett is o for o in storage.settings):
                            oracle.check_get(before, before_ids, op[1], sett, storage)
                        else:
                            oracle.problem(kind_op + ":settings-not-from-storage", None, "the storage's object", "%s handed the protocol layer a settings object that is not the storage's" % kind_op)
                        if kind_op == "connect":
                            oracle.check_applied(op[1], services_of(cconf), storage, "connect")
                            applies.append((content_of(sett), op[1], services_of(cconf)))
                    elif res == "err:DeviceIdMissingError" and kind_op == "pair":
                        mlines, ians = ["get " + w_cfg(op[1])], ["err:DeviceIdMissingError"]
                    elif grew:
                        mlines, ians = ["get " + w_cfg(op[1])], ["*"]
                    extra = {"mlines": mlines, "ians": ians}
                elif kind_op == "remove":
                    target = objs[op[1]] if op[1] < len(objs) else None
                    if target is None:
                        res = "skip"
                    else:
                        op = ["remove", op[1], content_of(target)]
                        r = loop.run_until_complete(storage.remove_settings(target))
                        res = "true" if r else "false"
                elif kind_op == "mutate":
                    if op[1] < len(objs):
                        set_key(objs[op[1]], op[2], op[3])
                    res = "ok"
                elif kind_op == "save":
                    try:
                        loop.run_until_complete(storage.save())
                    except Exception as e:
                        oracle.problem("roundtrip:save-raises", type(e).__name__ + ": " + str(e)[:120], "save() stores the settings",
                                       "save() raises for settings that were stored in the storage")
                        raise
                    oracle.mark(storage)
                    res = "ok"
                    if kind == "file":
                        fo, err, lookups = fresh(probe=True)
                        oracle.check_roundtrip(storage, fo or [], err, lookups)
                        reloaded = "err:" + err if err else [content_of(o) for o in fo]
                elif kind_op == "savefail":
                    with _FailOpen(root):
                        try:
                            loop.run_until_complete(storage.save())
                            res = "ok"
                            oracle.mark(storage)       # nothing was written: save was a no-op (unchanged)
                        except OSError:
                            res = "ok"                 # model: nothing happens; the oracle keeps its snapshot
                elif kind_op == "loadfail":
                    # a load the storage must reject: the file is replaced, for the duration of the
                    # call, by content that is not a supported storage model (it names a foreign
                    # device with credentials, so anything taken over from it shows); then put back
                    had = os.path.exists(path)
                    keep = open(path, "rb").read() if had else None
                    foreign = {"version": 1, "devices": [{"info": {"name": "foreign"}, "protocols": {
                        "mrp": {"identifier": "FOREIGN-ID", "credentials": "foreign-creds"}}}]}
                    variant = op[1]
                    if variant == "version":
                        text = json.dumps(dict(foreign, version=2))
                    elif variant == "version0":
                        text = json.dumps(dict(foreign, version=0))
                    elif variant == "notjson":
                        text = json.dumps(foreign)[:-7]
                    else:
                        text = json.dumps([foreign])
                    with open(path, "w", encoding="utf-8") as fh:
                        fh.write(text)
                    try:
                        loop.run_until_complete(storage.load())
                        res = "accepted"
                    except Exception:
                        res = "ok"                     # model: a rejected load is inert
                    finally:
                        if had:
                            with open(path, "wb") as fh:
                                fh.write(keep)
                        else:
                            os.unlink(path)
                    if res == "accepted":
                        oracle.problem("roundtrip:rejected-load-accepted", variant, "load() raises",
                                       "a file that is not a supported storage model was loaded")
                    if any("FOREIGN-ID" in ids_of(o) for o in storage.settings):
                        oracle.problem("lookup:rejected-load-replaced-devices", [ids_of(o) for o in storage.settings],
                                       "the devices stored before the rejected load",
                                       "a rejected load() replaced the stored devices by those of the rejected file")
                elif kind_op == "load":
                    existed = kind == "file" and os.path.exists(path)
                    loop.run_until_complete(storage.load())
                    if existed:
                        oracle.mark(storage)
                    res = "ok"
            except Exception as e:  # the real code raised where the model has no error: an observation
                res = "raises:" + type(e).__name__
            number()
            ch, hl = status()
            if ch in (True, False):
                oracle.check_changed(storage, ch)
            content = [(handles[id(o)], content_of(o)) for o in storage.settings]
            obs.append(dict({"op": op, "res": res, "changed": ch, "handles": hl, "content": content, "reloaded": reloaded}, **extra))
            problems += [(idx,) + p for p in oracle.problems]
        final = None
        if kind == "file":
            fo, err, _l = fresh()
            final = "err:" + err if err else [content_of(o) for o in fo]
        return obs, problems, applies, final
    finally:
        shutil.rmtree(root, ignore_errors=True)


# --------------------------------------------------------------------------- model side

def model_lines(kind, obs, final):
    lines = ["reset " + kind]
    for o in obs:
        op = o["op"]
        k = op[0]
        if "mlines" in o:
            lines += o["mlines"]
        elif k in ("get", "update"):
            lines.append("%s %s" % (k, w_cfg(op[1])))
        elif k == "remove":
            lines.append("remove " + w_content(op[2]) if len(op) > 2 else "content")
        elif k == "mutate":
            lines.append("mutate %d %s %s" % (op[1], op[2], w_val(op[3])))
        else:
            lines.append(k)
        lines.append("content")
        if o["reloaded"] is not None:
            lines.append("reloaded")
    if final is not None:
        lines.append("reloaded")
    return lines


def impl_answers(kind, obs, final):
    out = ["ok"]
    for o in obs:
        st = "%d %s" % (1 if o["changed"] is True else 0 if o["changed"] is False else -1,
                        ",".join(map(str, o["handles"])) or "-")
        if "ians" in o:
            # caller ops: one model `get` per lookup the caller made; intermediate answers are not
            # observable ("*"), the storage status after the last one is
            out += ["*"] * (len(o["ians"]) - 1) + ["%s %s" % (a, st) for a in o["ians"][-1:]]
        elif o["op"][0] == "remove" and len(o["op"]) <= 2:
            out.append("|".join("%d:%s" % (h, w_content(c)) for h, c in o["content"]) or "-")   # skipped op: content line twice
        else:
            out.append("%s %s" % (o["res"], st))
        out.append("|".join("%d:%s" % (h, w_content(c)) for h, c in o["content"]) or "-")
        if o["reloaded"] is not None:
            out.append(o["reloaded"] if isinstance(o["reloaded"], str) else ("|".join(w_content(c) for c in o["reloaded"]) or "-"))
    if final is not None:
        out.append(final if isinstance(final, str) else ("|".join(w_content(c) for c in final) or "-"))
    return out


# --------------------------------------------------------------------------- generators

CREDS = [None, "", "abc", UNI, "0123456789abcdef:fedcba9876543210", " Lead", "Trail \n", "MiXeD:Case:AbCdEf", "Zz9" * 300]
STRS = ["", "abc", UNI, "a b", "é\U0001F600" * 3, " Living Room ", "UPPER lower MiXeD", "N" * 700]
MACS = ["02:70:79:61:74:76", "AA:BB:CC:DD:EE:FF"]


def gen_cfg(rng, mode=None):
    mode = mode or rng.choice(["dev"] * 8 + ["bridge", "noid"])
    n = rng.choice([1, 1, 2, 2, 3, 4])
    protos = rng.sample(PROTOS, n)
    if mode == "noid":
        return [[p, None, rng.choice(CREDS), None] for p in protos]
    if mode == "bridge":
        d1, d2 = rng.sample(range(len(POOLS)), 2)
        protos = rng.sample(PROTOS, max(2, n))
        pool = [rng.choice(POOLS[d1]), rng.choice(POOLS[d2])] + [rng.choice(POOLS[d1] + POOLS[d2]) for _ in protos[2:]]
        return [[p, i, rng.choice(CREDS), rng.choice(CREDS[:7])] for p, i in zip(protos, pool)]
    d = rng.randrange(len(POOLS))
    cfg = []
    for j, p in enumerate(protos):
        ident = rng.choice(POOLS[d]) if (j == 0 or rng.chance(0.8)) else None
        cfg.append([p, ident, rng.choice(CREDS), rng.choice(CREDS[:7])])
        if rng.chance(0.2):
            cfg[-1].append(False)          # a disabled service (e.g. MRP on tvOS 15+): still identifies the device
    return cfg


def gen_value(rng, path):
    leaf = path.split(".")[-1]
    if path.startswith("info."):
        if leaf == "mac":
            return rng.choice(MACS)
        return rng.choice(STRS + [defaults()[path]])
    if leaf == "mrp_tunnel":
        return rng.choice(["auto", "force", "disable"])
    if leaf == "protocol_version":
        return rng.choice(["auto", "1", "2"])
    if leaf in ("timing_port", "control_port"):
        return rng.choice([0, 1, 7000, 65535])
    if leaf == "identifier":
        return rng.choice([None, A0, B1, "Zz", ""])
    return rng.choice(CREDS)


def gen_history(rng, kind, length):
    ops, nobj = [], 0
    mpaths = [p for p in PATHS if p not in UNDECLARED]
    for _ in range(length):
        r = rng.random()
        if r < 0.34:
            ops.append(["get", gen_cfg(rng)])
            nobj += 1
        elif r < 0.50:
            ops.append(["update", gen_cfg(rng)])
            nobj += 1
        elif r < 0.58:
            if rng.chance(0.3) and 0 < nobj <= 4:
                # empty the storage: remove every object that may be live, then save
                ops += [["remove", h] for h in range(nobj)] + [["save"]]
            else:
                ops.append(["remove", rng.randrange(max(1, nobj + 1))])
        elif r < 0.78:
            path = rng.choice(mpaths)
            if path.endswith("identifier") and rng.chance(0.7):
                path = rng.choice(mpaths)
            ops.append(["mutate", rng.randrange(max(1, nobj + 1)), path, gen_value(rng, path)])
        elif r < 0.86:
            ops.append(["save"])
        elif r < 0.92:
            c = rng.random()
            if c < 0.5:
                n = rng.choice([2, 3, 3, 4])
                cfgs = [gen_cfg(rng, rng.choice(["dev"] * 6 + ["noid", "bridge"])) for _ in range(n)]
                allids = [i for cf in cfgs for _p, i, _c, _pw in c4(cf) if i]
                filt = None if (rng.chance(0.25) or not allids) else rng.sample(allids, min(len(allids), rng.choice([1, 1, 2])))
                ops.append(["scan", cfgs, filt])
                nobj += n
            elif c < 0.8:
                ops.append(["connect", gen_cfg(rng)])
                nobj += 1
            else:
                ops.append(["pair", gen_cfg(rng), rng.choice(PROTOS)])
                nobj += 1
        elif r < 0.95 and kind == "file":
            ops.append(["savefail"] if rng.chance(0.5) else ["loadfail", rng.choice(["version", "version0", "notjson", "notmodel"])])
        else:
            ops.append(["load"])
            nobj += 2
    return ops[:12]


def fixed_histories():
    a = [["MRP", A0, "mrpcred", None], ["AirPlay", A1, "apcred", "pw"]]
    return [
        # same device through a different protocol slot / subset of identifiers
        [["get", a], ["get", [["Companion", A1, None, None]]], ["get", [["RAOP", A0, None, None], ["DMAP", "Zz", None, None]]],
         ["save"], ["get", [["DMAP", B0, "x", None]]], ["save"], ["load"], ["get", [["AirPlay", A0, None, None]]]],
        # bridging configuration
        [["get", [["MRP", A0, "1", None]]], ["get", [["MRP", B0, "2", None]]], ["get", [["MRP", B0, None, None], ["AirPlay", A0, None, None]]],
         ["update", [["MRP", B0, None, None], ["AirPlay", A0, "3", None]]], ["get", [["DMAP", B0, None, None]]]],
        # undeclared password extras, empty and unicode values, save / savefail / load
        [["update", [["Companion", "", UNI, "pw"], ["MRP", None, "", UNI]]], ["save"], ["mutate", 0, "info.name", UNI],
         ["savefail"], ["mutate", 0, "protocols.raop.timing_port", 7000], ["save"], ["load"], ["mutate", 1, "info.name", ""], ["save"]],
        # a rejected load (unsupported version / broken file) between uses of stored devices: objects,
        # `changed` and the next save are those of the history without it
        [["get", a], ["save"], ["loadfail", "version"], ["get", [["MRP", A0, None, None]]], ["save"], ["load"]],
        [["get", a], ["loadfail", "version0"], ["save"], ["loadfail", "notjson"], ["mutate", 0, "info.name", "x"],
         ["loadfail", "notmodel"], ["save"], ["load"], ["get", [["AirPlay", A1, None, None]]]],
        [["loadfail", "version"], ["get", [["MRP", C0, "k", None]]], ["save"], ["loadfail", "version"], ["load"]],
        # removal is by content
        [["get", [["MRP", C0, "k", None]]], ["save"], ["load"], ["remove", 0], ["get", [["MRP", C0, None, None]]], ["save"]],
        # boundary: the storage becomes empty again — the last devices are removed, saved, reloaded
        [["get", [["MRP", C0, "k", None]]], ["save"], ["remove", 0], ["save"], ["load"], ["get", [["MRP", C0, None, None]]]],
        [["update", a], ["update", [["RAOP", B1, "SECRET-B", "pw"]]], ["save"], ["remove", 0], ["save"], ["remove", 1], ["save"],
         ["load"], ["get", [["RAOP", B1, None, None]]]],
        # callers of the storage: scan with devices filtered out (identifier filter / no identifier) discovered
        # BEFORE kept ones, connect and pair
        [["update", [["AirPlay", A0, "creds-A", "pw-A"]]], ["update", [["AirPlay", B0, "creds-B", None], ["Companion", B1, "comp-B", None]]],
         ["update", [["AirPlay", C0, "creds-C", "pw-C"], ["RAOP", C0, "raop-C", None]]], ["save"],
         ["scan", [[["AirPlay", A0, None, None]], [["AirPlay", B0, None, None], ["Companion", B1, None, None]],
                   [["AirPlay", C0, None, None], ["RAOP", C0, None, None]]], [B0, C0]],
         ["scan", [[["MRP", None, None, None], ["AirPlay", "", None, None]], [["RAOP", C0, None, None]], [["AirPlay", A0, None, None]]], None],
         ["scan", [[["AirPlay", B0, None, None]], [["AirPlay", "Zz", None, None]], [["AirPlay", A0, "own", None]]], [A0]],
         ["connect", [["AirPlay", B0, None, None], ["Companion", B1, None, None]]], ["pair", [["RAOP", C0, None, None]], "RAOP"],
         ["connect", [["MRP", "new-device", "k", None]]], ["pair", [["MRP", None, None, None]], "MRP"], ["pair", [["MRP", A0, None, None]], "DMAP"]],
        # no identifier
        [["get", [["MRP", None, "k", None]]], ["update", []], ["save"], ["load"]],
        # identifier overwritten with None by update; all-default device
        [["get", [["MRP", A0, None, None]]], ["mutate", 0, "protocols.mrp.identifier", None], ["save"], ["load"],
         ["get", [["MRP", A0, None, None]]], ["save"]],
    ]


# --------------------------------------------------------------------------- run

def nontrivial(obs):
    creators, hit = {}, False
    for o in obs:
        if o["op"][0] == "get" and o["res"].startswith("h"):
            key = json.dumps(o["op"][1])
            h = o["res"]
            if h in creators and creators[h] != key:
                hit = True
            creators.setdefault(h, key)
        if o["reloaded"] and not isinstance(o["reloaded"], str) and any(o["reloaded"]):
            hit = hit or o["op"][0] == "save"
    return hit


def run_histories(ctx, cases):
    loop = asyncio.new_event_loop()
    results = []
    try:
        for kind, ops in cases:
            try:
                obs, problems, applies, final = execute(kind, ops, loop)
            except Exception as e:
                ctx.disagree({"kind": kind, "ops": ops}, "harness step raised %s: %s" % (type(e).__name__, e), "n/a", where="execute")
                continue
            results.append((kind, ops, obs, problems, applies, final))
    finally:
        loop.run_until_complete(loop.shutdown_default_executor())
        loop.close()

    lines, spans = [], []
    for kind, ops, obs, problems, applies, final in results:
        ml = model_lines(kind, obs, final)
        al = ["apply %s %s" % (w_content(c), w_cfg(cfg)) for c, cfg, _r in applies]
        spans.append((len(lines), len(ml), len(al)))
        lines += ml + al
    answers = ctx.lean(lines) if lines else []

    for (kind, ops, obs, problems, applies, final), (start, nml, nal) in zip(results, spans):
        model = answers[start:start + nml]
        impl = impl_answers(kind, obs, final)
        ml = lines[start:start + nml]
        case = {"kind": kind, "ops": ops}
        ctx.case([kind, ops], nontrivial(obs), sample={"kind": kind, "ops": ops[:6]})
        ctx.validated()
        if len(impl) != len(model):
            ctx.disagree(case, len(impl), len(model), where="storage history (line count)")
        for o in obs:
            ctx.note("op:" + o["op"][0])
            if o["op"][0] in ("scan", "connect", "pair"):
                ctx.note("%s:%s" % (o["op"][0], o["res"] if o["op"][0] != "scan" else "returned=%d/%d" % (len(o.get("returned", [])), len(o["op"][1]))))
            if o["op"][0] == "get":
                ctx.note("get:" + ("error" if o["res"].startswith("err") else "answered"))
        for i, (a, b) in enumerate(zip(impl, model)):
            if a == "*":
                continue
            if a.startswith("* "):
                a, b = a[2:], b.split(" ", 1)[1] if " " in b else b
            if a != b:
                ctx.disagree(dict(case, line=ml[i], line_index=i), a, b, where="storage history")
                break
        for (c, cfg, real), ans in zip(applies, answers[start + nml:start + nml + nal]):
            want = w_cfg([[p, i, cr, pw] for p, i, cr, pw in real])
            ctx.note("apply")
            if ans != want:
                ctx.disagree(dict(case, apply={"settings": c, "config": cfg}), want, ans, where="BaseConfig.apply")
                break
        for idx, sig, observed, required, what in problems:
            ctx.fail(sig, {"kind": kind, "ops": ops[:idx + 1]}, observed, required, what)


# --------------------------------------------------------------------------- the same histories in another process locale

CHILD = r"""
import sys, json, asyncio, locale
sys.path[:0] = [%r, %r]
from harness import c14
kind, ops = json.loads(sys.stdin.read())
loop = asyncio.new_event_loop()
obs, problems, applies, final = c14.execute(kind, ops, loop)
loop.run_until_complete(loop.shutdown_default_executor()); loop.close()
print(json.dumps({"enc": locale.getpreferredencoding(False), "problems": problems, "final": final,
                  "obs": [[o["res"], o["changed"], o["handles"], o["content"], o["reloaded"]] for o in obs]}))
"""
C_ENV = {"LC_ALL": "C", "LANG": "C", "PYTHONUTF8": "0", "PYTHONCOERCECLOCALE": "0", "PYTHONIOENCODING": "ascii:backslashreplace"}


def execute_child(kind, ops):
    """execute() in a child interpreter whose locale encoding is not UTF-8 (LC_ALL=C, UTF-8 mode and
    locale coercion off).  Returns the child's result dict or {"error": ...}."""
    import subprocess
    import sys

    from harness.core import REPO, VERIF

    env = dict({k: v for k, v in os.environ.items() if not k.startswith("LC_") and k not in ("LANG", "PYTHONUTF8")}, **C_ENV)
    try:
        p = subprocess.run([sys.executable, "-c", CHILD % (REPO, VERIF)], input=json.dumps([kind, ops]), env=env,
                           capture_output=True, text=True, timeout=120)
        return json.loads(p.stdout.strip().split("\n")[-1])
    except Exception as e:
        return {"error": "%s: %s" % (type(e).__name__, str(e)[:200])}


SUR = "a\ud800b"          # a lone surrogate: representable in a Python str, round-trips through the pinned code


def locale_histories():
    h = fixed_histories()
    return [("file", h[2]),
            ("file", [["update", [["AirPlay", A0, UNI, "p\u00e4ss"], ["Companion", B1, "\u4e2d\u6587", None]]], ["mutate", 0, "info.name", "Wohnzimmer \u00fc\U0001F4FA"],
                      ["save"], ["load"], ["get", [["Companion", B1, None, None]]], ["mutate", 1, "protocols.raop.password", "\u00e9"], ["save"]]),
            ("file", [["update", [["MRP", A1, SUR, None]]], ["mutate", 0, "info.name", SUR + UNI], ["save"], ["load"], ["save"]])]


def run_locale(ctx, cases):
    loop = asyncio.new_event_loop()
    try:
        for kind, ops in cases:
            here = execute(kind, ops, loop)
            child = execute_child(kind, ops)
            case = {"kind": kind, "ops": ops, "env": "LC_ALL=C PYTHONUTF8=0 PYTHONCOERCECLOCALE=0"}
            ctx.case(["locale", kind, ops], True)
            ctx.note("locale-child:" + str(child.get("enc", child.get("error", "?")))[:40])
            if "error" in child:
                ctx.disagree(case, child["error"], "n/a", where="child process (locale)")
                continue
            for idx, sig, observed, required, what in child["problems"]:
                ctx.fail(sig + ":non-utf8-locale", dict(case, ops=ops[:idx + 1]), observed, required,
                         what + " (process locale encoding %s)" % child["enc"])
            mine = json.loads(json.dumps([[o["res"], o["changed"], o["handles"], o["content"], o["reloaded"]] for o in here[0]]))
            if not child["problems"] and (mine != child["obs"] or json.loads(json.dumps(here[3])) != child["final"]):
                first = next((n for n, (a, b) in enumerate(zip(mine, child["obs"])) if a != b), len(mine))
                ctx.fail("locale:behaviour-depends-on-process-locale", dict(case, ops=ops[:first + 1]),
                         child["obs"][first] if first < len(child["obs"]) else child["final"], mine[first] if first < len(mine) else here[3],
                         "the same history behaves differently in a process whose locale encoding is %s" % child["enc"])
            for idx, sig, observed, required, what in here[1]:
                ctx.fail(sig, {"kind": kind, "ops": ops[:idx + 1]}, observed, required, what)
    finally:
        loop.run_until_complete(loop.shutdown_default_executor())
        loop.close()


def run(ctx, only=None):
    if only is not None:
        return run_histories(ctx, only)
    lrng = ctx.rng.fork("locale")
    run_locale(ctx, locale_histories() + [("file", gen_history(lrng, "file", 8)) for _ in range(ctx.scale(2, 12))])
    cases = []
    for h in fixed_histories():
        cases.append(("file", h))
        cases.append(("memory", [op for op in h if op[0] not in ("savefail", "loadfail")]))
    rng = ctx.rng.fork("histories")
    for i in range(ctx.scale(500, 5000)):
        kind = "file" if i % 3 else "memory"
        cases.append((kind, gen_history(rng, kind, rng.randrange(3, 11))))
    run_histories(ctx, cases)


def _fails(ctx, kind, ops, sig, env=None):
    if env:
        child = execute_child(kind, ops)
        probs = child.get("problems", [])
        if "error" in child:
            return False
        if (sig and sig.startswith("locale:")) or (not sig and not probs):
            loop = asyncio.new_event_loop()
            try:
                here = execute(kind, ops, loop)
            finally:
                loop.run_until_complete(loop.shutdown_default_executor())
                loop.close()
            mine = json.loads(json.dumps([[o["res"], o["changed"], o["handles"], o["content"], o["reloaded"]] for o in here[0]]))
            return mine != child["obs"] or json.loads(json.dumps(here[3])) != child["final"]
        base = sig[:-len(":non-utf8-locale")] if sig and sig.endswith(":non-utf8-locale") else sig
        return any(p[1] == base for p in probs) if base else bool(probs)
    loop = asyncio.new_event_loop()
    try:
        _obs, problems, _a, _f = execute(kind, ops, loop)
    finally:
        loop.run_until_complete(loop.shutdown_default_executor())
        loop.close()
    return any(p[1] == sig for p in problems) if sig else bool(problems)


def replay(ctx, failure):
    case = failure["case"]
    return _fails(ctx, case["kind"], case["ops"], None, case.get("env"))


def shrink(ctx, failure):
    case, sig = failure["case"], failure["sig"]
    ops = list(case["ops"])
    i = 0
    while i < len(ops) - 1 and len(ops) > 1:
        cand = ops[:i] + ops[i + 1:]
        try:
            if _fails(ctx, case["kind"], cand, sig, case.get("env")):
                ops = cand
                continue
        except Exception:
            pass
        i += 1
    if ops == case["ops"]:
        return failure
    return dict(failure, case=dict(case, ops=ops, shrunk_from=len(case["ops"])))
