"""C07 — encrypted channels: correspondence (toy AEAD swapped into the real cipher objects,
exact wire bytes vs the Lean model) + direct oracle with real ChaCha20-Poly1305 against an
independent peer written with `cryptography` only.

Real code driven: pyatv.auth.hap_session.HAPSession, pyatv.support.chacha20.*,
CompanionConnection.send/data_received, MrpConnection.send_raw/data_received,
AirPlayV2.send_audio_packet.
"""
import asyncio
import struct

RULE = ("toy-AEAD differential: plaintext lengths around 0/1/1023..1025/2047..2049/5120 + random, start counters "
        "at 0, byte boundaries and the 2^64/2^96 overflow edge, 1/2-cut and byte-at-a-time segmentations, "
        "single-byte corruptions; real-AEAD oracle: independent peer recovers plaintext, nonces never repeat, "
        "every corruption position of a 3-frame stream is rejected or yields a frame prefix. non-trivial = "
        "multi-frame message, a cut inside a block, a corrupted stream, or a counter > 255; distinct = "
        "(channel, op, lengths, counter, cuts)")
ASSUMPTIONS = [
    "ChaCha20-Poly1305 is a correct and unforgeable AEAD (theorem hypotheses Laws/HapAuth/CompAuth)",
    "Python int.to_bytes / struct.pack raise when the counter no longer fits (modelled as nonce? = none)",
]
TRUSTED = ["toy AEAD (pt ‖ polynomial mac) implemented identically in Lean (C07/Driver.lean) and in harness/c07.py",
           "`cryptography` ChaCha20Poly1305 as the independent peer"]

MAC_MOD = 2 ** 127 - 1
TAG = 16


def toy_mac(key, nonce, aad, pt):
    pre = bytes([len(key) % 256, len(nonce) % 256, len(aad) % 256]) + (len(pt) % 2 ** 32).to_bytes(4, "little")
    h = 7
    for b in pre + key + nonce + aad + pt:
        h = (h * 257 + b + 1) % MAC_MOD
    return h.to_bytes(16, "little")


class ToyAead:
    """Drop-in for ChaCha20Poly1305Reusable inside Chacha20Cipher."""

    def __init__(self, key, log=None):
        self.key = key
        self.log = log

    def encrypt(self, nonce, data, aad):
        aad = aad or b""
        if self.log is not None:
            self.log.append(("seal", bytes(nonce), bytes(aad), len(data)))
        return bytes(data) + toy_mac(self.key, bytes(nonce), bytes(aad), bytes(data))

    def decrypt(self, nonce, data, aad):
        from cryptography.exceptions import InvalidTag

        aad = aad or b""
        data = bytes(data)
        if len(data) < TAG or data[-TAG:] != toy_mac(self.key, bytes(nonce), bytes(aad), data[:-TAG]):
            raise InvalidTag()
        return data[:-TAG]


class Spy:
    """Wraps a real AEAD object and records the nonces used."""

    def __init__(self, inner, nonces):
        self.inner = inner
        self.nonces = nonces

    def encrypt(self, nonce, data, aad):
        self.nonces.append(bytes(nonce))
        return self.inner.encrypt(nonce, data, aad)

    def decrypt(self, nonce, data, aad):
        return self.inner.decrypt(nonce, data, aad)


def hx(b):
    return b.hex() if b else "-"


def err_class(exc):
    from cryptography.exceptions import InvalidTag

    if isinstance(exc, (OverflowError, struct.error)):
        return "overflow"
    if isinstance(exc, InvalidTag):
        return "invalidTag"
    return "other:" + type(exc).__name__


class FakeTransport:
    def __init__(self):
        self.writes = []

    def write(self, data):
        self.writes.append(bytes(data))

    def sendto(self, data, addr=None):
        self.writes.append(bytes(data))

    def close(self):
        pass

    def get_extra_info(self, *_a, **_k):
        return None


KEY_OUT = bytes(range(32))
KEY_IN = bytes(range(32, 64))
LENGTHS = [0, 1, 2, 15, 16, 17, 255, 256, 1023, 1024, 1025, 2047, 2048, 2049, 3 * 1024, 5 * 1024, 5 * 1024 + 1]
COUNTERS8 = [0, 1, 255, 256, 65535, 65536, 2 ** 32 - 1, 2 ** 32, 2 ** 64 - 2, 2 ** 64 - 1, 2 ** 64]
COUNTERS12 = [0, 1, 255, 256, 2 ** 64 - 1, 2 ** 64, 2 ** 96 - 2, 2 ** 96 - 1, 2 ** 96]


def toy_hap_session(out_key, in_key, out_ctr=0, in_ctr=0):
    from pyatv.auth.hap_session import HAPSession

    s = HAPSession()
    s.enable(out_key, in_key)
    s.chacha20._enc_out = ToyAead(out_key)
    s.chacha20._enc_in = ToyAead(in_key)
    s.chacha20._out_counter = out_ctr
    s.chacha20._in_counter = in_ctr
    return s


def pattern(rng, n):
    return bytes((i * 7 + rng.randrange(256)) % 256 for i in range(n)) if n else b""


# ---------------------------------------------------------------------------------------
# (i) toy-AEAD differential
# ---------------------------------------------------------------------------------------

def corr_hap_send(ctx, rng):
    cases, lines = [], []
    lens = LENGTHS + [rng.randrange(0, 6000) for _ in range(ctx.scale(10, 60))]
    for n in lens:
        for c in (COUNTERS8 if n in (0, 1, 1025, 2049) else [rng.choice(COUNTERS8), 0]):
            data = pattern(rng, n)
            s = toy_hap_session(KEY_OUT, KEY_IN, out_ctr=c)
            try:
                wire = s.encrypt(data)
                impl = f"{hx(wire)} {s.chacha20._out_counter}"
            except Exception as e:  # noqa: BLE001
                impl = "err:" + err_class(e)
            cases.append((("hap-send", n, c), impl, n > 1024 or c > 255))
            lines.append(f"hapenc {hx(KEY_OUT)} {c} {hx(data)}")
    return cases, lines


def segmentations(rng, n, ctx, exhaustive_limit):
    """cut lists for a stream of length n"""
    segs = [[]]
    if n <= exhaustive_limit:
        segs += [[i] for i in range(1, n)]
    else:
        segs += [[i] for i in sorted(set([1, 2, 3, 17, 18, 19, n - 17, n - 16, n - 2, n - 1] + rng.sample(range(1, n), min(20, n - 1)))) if 0 < i < n]
    for _ in range(ctx.scale(6, 40)):
        segs.append(rng.cuts(n, 2))
    for _ in range(ctx.scale(2, 10)):
        segs.append(rng.cuts(n, rng.randrange(3, 12)))
    if n <= 300:
        segs.append(list(range(1, n)))
    return segs


def corr_hap_recv(ctx, rng):
    from harness.core.prng import split_at

    cases, lines = [], []
    streams = []
    for msgs in ([0], [1], [1024], [1025], [5, 1024, 3], [2049, 1], [300, 300, 300]):
        streams.append(msgs)
    for _ in range(ctx.scale(3, 12)):
        streams.append([rng.choice([1, 7, 100, 1023, 1024, 1025, 1500]) for _ in range(rng.randrange(1, 4))])
    for msgs in streams:
        c0 = rng.choice([0, 255, 65535, 2 ** 64 - 3])
        sender = toy_hap_session(KEY_IN, KEY_OUT, out_ctr=c0)  # device side: its out key is our in key
        try:
            wire = b"".join(sender.encrypt(pattern(rng, n)) for n in msgs)
        except Exception:  # noqa: BLE001
            continue
        variants = [("clean", wire)]
        for _ in range(ctx.scale(4, 25)):
            if wire:
                pos = rng.randrange(len(wire))
                variants.append((f"flip@{pos}", wire[:pos] + bytes([wire[pos] ^ (1 << rng.randrange(8))]) + wire[pos + 1:]))
        for tag, w in variants:
            segs = segmentations(rng, len(w), ctx, 80 if tag == "clean" else 0)
            if tag != "clean":
                segs = segs[:3]
            for cuts in segs:
                recv = toy_hap_session(KEY_OUT, KEY_IN, in_ctr=c0)
                lines.append(f"hapreset {hx(KEY_IN)} {c0}")
                cases.append((None, "ok", False))
                for chunk in split_at(w, cuts):
                    try:
                        out = recv.decrypt(chunk)
                        st = "ok"
                    except Exception as e:  # noqa: BLE001
                        out = b""
                        st = "err:" + err_class(e)
                    impl = (hx(out), len(recv._encrypted_data), recv.chacha20._in_counter, st)
                    cases.append((("hap-recv", tuple(msgs), c0, tag, tuple(cuts), len(lines)), impl, bool(cuts) or tag != "clean"))
                    lines.append(f"hapfeed {hx(chunk)}")
    return cases, lines


def corr_hap_duplex(ctx, rng):
    """One session object used in both directions: per-direction counters must not interact."""
    cases, lines = [], []
    for _ in range(ctx.scale(8, 60)):
        out0, in0 = rng.choice([0, 5, 255]), rng.choice([0, 9, 65535])
        sess = toy_hap_session(KEY_OUT, KEY_IN, out_ctr=out0, in_ctr=in0)
        device = toy_hap_session(KEY_IN, KEY_OUT, out_ctr=in0)   # what the device sends us
        lines.append(f"hapreset {hx(KEY_IN)} {in0}")
        cases.append((None, "ok", False))
        sent_frames = 0
        for step in range(rng.randrange(4, 14)):
            n = rng.choice([1, 10, 1024, 1025, 2500])
            data = pattern(rng, n)
            if rng.chance(0.5):
                try:
                    wire = sess.encrypt(data)
                    impl = f"{hx(wire)} {sess.chacha20._out_counter}"
                except Exception as e:  # noqa: BLE001
                    impl = "err:" + err_class(e)
                cases.append((("hap-duplex-send", out0, in0, step, n), impl, True))
                lines.append(f"hapenc {hx(KEY_OUT)} {out0 + sent_frames} {hx(data)}")
                sent_frames += (n + 1023) // 1024
            else:
                chunk = device.encrypt(data)
                try:
                    out = sess.decrypt(chunk)
                    st = "ok"
                except Exception as e:  # noqa: BLE001
                    out, st = b"", "err:" + err_class(e)
                impl = (hx(out), len(sess._encrypted_data), sess.chacha20._in_counter, st)
                cases.append((("hap-recv", "duplex", out0, in0, step, n, len(lines)), impl, True))
                lines.append(f"hapfeed {hx(chunk)}")
    return cases, lines


def canon_hapfeed(ans):
    frames, buflen, ctr, st = ans.split(" ")
    joined = "".join(f for f in frames.split(",") if f != "-") if frames != "-" else ""
    if st != "ok":
        joined = ""  # the exception discards what the call had decoded
    return (joined or "-", int(buflen), int(ctr), st)


class RawType:
    """a Companion frame type byte that need not be a member of pyatv's FrameType enum"""

    def __init__(self, value):
        self.value = value
        self.name = "raw%d" % value


def corr_companion(ctx, rng):
    from pyatv.protocols.companion.connection import CompanionConnection, FrameType
    from harness.core.prng import split_at

    valid = {t.value for t in FrameType}
    unknown = [v for v in range(256) if v not in valid]
    cases, lines = [], []
    # send side
    for enc in (False, True):
        for n in [0, 1, 2, 100, 65535, 65536, 70000] + [rng.randrange(0, 3000) for _ in range(ctx.scale(5, 30))]:
            for c in ([0, rng.choice(COUNTERS12)] if n not in (1, 100) else COUNTERS12):
                ft = rng.choice(list(FrameType))
                data = pattern(rng, n)
                conn = CompanionConnection(None, "h", 0)
                conn.transport = tr = FakeTransport()
                if enc:
                    conn.enable_encryption(KEY_OUT, KEY_IN)
                    conn._chacha._enc_out = ToyAead(KEY_OUT)
                    conn._chacha._out_counter = c
                try:
                    conn.send(ft, data)
                    ctr = conn._chacha._out_counter if enc else c
                    impl = f"{hx(b''.join(tr.writes))} {ctr}"
                except Exception as e:  # noqa: BLE001
                    impl = "err:" + err_class(e)
                cases.append((("comp-send", enc, n, c, ft.value), impl, enc and n > 0))
                lines.append(f"compsend {hx(KEY_OUT)} {int(enc)} {c} {ft.value} {hx(data)}")
    # receive side (stateful)
    for enc in (False, True):
        for _ in range(ctx.scale(12, 80)):
            c0 = rng.choice([0, 255, 2 ** 64, 2 ** 96 - 2])
            # a quarter of the frames carry a type byte outside pyatv's FrameType enum (devices
            # newer than pyatv send such frames): they are opened like any other frame, so the
            # receive counter moves, and only then skipped
            frames = [(RawType(rng.choice(unknown)) if rng.chance(0.25) else rng.choice(list(FrameType)),
                       pattern(rng, rng.choice([0, 0, 1, 5, 300, 1200]))) for _ in range(rng.randrange(1, 6))]
            dev = CompanionConnection(None, "h", 0)
            dev.transport = tr = FakeTransport()
            if enc:
                dev.enable_encryption(KEY_IN, KEY_OUT)
                dev._chacha._enc_out = ToyAead(KEY_IN)
                dev._chacha._out_counter = c0
            try:
                for ft, d in frames:
                    dev.send(ft, d)
            except Exception:  # noqa: BLE001
                continue
            wire = b"".join(tr.writes)
            tag = "clean"
            if rng.chance(0.5) and wire:
                pos = rng.randrange(len(wire))
                wire = wire[:pos] + bytes([wire[pos] ^ (1 << rng.randrange(8))]) + wire[pos + 1:]
                tag = f"flip@{pos}"
            cuts = rng.cuts(len(wire), rng.choice([0, 1, 2, 5]))
            got = []

            class L:
                def frame_received(self, frame_type, data):
                    got.append(f"{frame_type.value}:{hx(data)}")

            conn = CompanionConnection(None, "h", 0)
            conn.set_listener(L())
            if enc:
                conn.enable_encryption(KEY_OUT, KEY_IN)
                conn._chacha._enc_in = ToyAead(KEY_IN)
                conn._chacha._in_counter = c0
            lines.append(f"compreset {hx(KEY_IN)} {int(enc)} {c0}")
            cases.append((None, "ok", False))
            for chunk in split_at(wire, cuts):
                del got[:]
                try:
                    conn.data_received(chunk)
                    st = "ok"
                except Exception as e:  # noqa: BLE001
                    st = "err:" + err_class(e)
                ctr = conn._chacha._in_counter if enc else c0
                impl = (tuple(got), len(conn._buffer), ctr, st)
                cases.append((("comp-recv", enc, c0, tag, tuple(len(d) for _t, d in frames), tuple(cuts), len(lines)), impl, enc))
                lines.append(f"compfeed {hx(chunk)}")
    return cases, lines, valid


def canon_compfeed(ans, valid):
    out, buflen, ctr = ans.split(" ")
    got = []
    if out != "-":
        for d in out.split(","):
            if d.startswith("!"):
                continue  # dropped frames are only logged by the real code
            t = int(d.split(":")[0])
            if t in valid:
                got.append(d)
    return (tuple(got), int(buflen), int(ctr), "ok")


def corr_mrp(ctx, rng):
    from pyatv.protocols.mrp.connection import MrpConnection
    from pyatv.protocols.mrp import messages, protobuf

    cases, lines = [], []
    for enc in (False, True):
        # raw plaintext lengths around every varint length-class boundary of the CIPHERTEXT
        # length (len + 16 when encrypted): 127/128, 16383/16384
        raw_lens = [95, 96, 111, 112, 113, 127, 128, 129, 16351, 16352, 16367, 16368, 16369, 16383, 16384, 16385, 16495, 16496]
        plan = [("raw", n) for n in raw_lens] + [("msg", None)] * ctx.scale(25, 150)
        for kind, rawn in plan:
            c0 = rng.choice(COUNTERS8)
            msg = messages.create(protobuf.GENERIC_MESSAGE, identifier="x" * rng.choice([0, 1, 100, 127, 128, 300, 17000]))
            data = msg.SerializeToString() if kind == "msg" else pattern(rng, rawn)
            conn = MrpConnection("h", 0, None)
            conn._transport = tr = FakeTransport()
            if enc:
                conn.enable_encryption(KEY_OUT, KEY_IN)
                conn._chacha._enc_out = ToyAead(KEY_OUT)
                conn._chacha._out_counter = c0
            use_raw = rng.chance(0.5) or kind == "raw"
            try:
                if use_raw:
                    conn.send_raw(data)
                else:
                    conn.send(msg)
                ctr = conn._chacha._out_counter if enc else c0
                wire = b"".join(tr.writes)
                impl = f"{hx(wire)} {ctr}"
            except Exception as e:  # noqa: BLE001
                wire = None
                impl = "err:" + err_class(e)
            cases.append((("mrp-send", enc, len(data), c0, use_raw), impl, enc))
            lines.append(f"mrpsend {hx(KEY_OUT)} {int(enc)} {c0} {hx(data)}")
            if wire is None or kind == "raw":
                continue
            # receive the same message on a peer whose in-key is KEY_OUT; optionally corrupted
            tag = "clean"
            w = wire
            if rng.chance(0.4):
                pos = rng.randrange(len(w))
                w = w[:pos] + bytes([w[pos] ^ (1 << rng.randrange(8))]) + w[pos + 1:]
                tag = "flip"
            got = []

            class L:
                def message_received(self, parsed, raw):
                    got.append(hx(raw))

                def stop(self):
                    pass

            peer = MrpConnection("h", 0, None)
            keep = L()  # StateProducer keeps only a weak reference
            peer.listener = keep
            if enc:
                peer.enable_encryption(KEY_IN, KEY_OUT)
                peer._chacha._enc_in = ToyAead(KEY_OUT)
                peer._chacha._in_counter = c0
            try:
                peer.data_received(w)
            except Exception as e:  # noqa: BLE001
                got.append("exc:" + type(e).__name__)
            if tag == "clean":
                # the framed message is exactly the ciphertext the sender wrote after the varint
                from pyatv.support.variant import read_variant

                _n, ct = read_variant(wire)
                ctr = peer._chacha._in_counter if enc else c0
                cases.append((("mrp-recv", enc, len(data), c0), (tuple(got), ctr), enc))
                lines.append(f"mrphandle {hx(KEY_OUT)} {int(enc)} {c0} {hx(ct)}")
            else:
                # oracle only: a corrupted message must never be delivered altered
                if enc and got and got != [hx(data)]:
                    ctx.fail("mrp:altered-plaintext-delivered", {"enc": enc, "len": len(data), "c0": c0}, got, "nothing or the original", "MRP delivered altered plaintext")
    return cases, lines


def corr_audio(ctx, rng):
    from pyatv.protocols.raop.protocols.airplayv2 import AirPlayV2
    from pyatv.protocols.raop.protocols import StreamContext
    from pyatv.support.chacha20 import Chacha20Cipher8byteNonce

    cases, lines = [], []
    loop = asyncio.new_event_loop()
    try:
        for _ in range(ctx.scale(40, 300)):
            c0 = rng.choice(COUNTERS8)
            header = rng.bytes_(12)
            audio = pattern(rng, rng.choice([0, 1, 352 * 4, 1408, 1000]))
            ap = AirPlayV2(StreamContext(), None)
            ap._cipher = Chacha20Cipher8byteNonce(KEY_OUT, KEY_OUT)
            ap._cipher._enc_out = ToyAead(KEY_OUT)
            ap._cipher._out_counter = c0
            tr = FakeTransport()
            try:
                loop.run_until_complete(ap.send_audio_packet(tr, header, audio))
                impl = f"{hx(b''.join(tr.writes))} {ap._cipher._out_counter}"
            except Exception as e:  # noqa: BLE001
                impl = "err:" + err_class(e)
            cases.append((("audio", len(audio), c0), impl, c0 > 255))
            lines.append(f"audio {hx(KEY_OUT)} {c0} {hx(header)} {hx(audio)}")
    finally:
        loop.close()
    return cases, lines


# ---------------------------------------------------------------------------------------
# (ii) real-AEAD oracle with an independent peer
# ---------------------------------------------------------------------------------------

def peer_hap_decrypt(key, wire, counter=0):
    """Independent HAP receiver (cryptography only). Returns list of frames."""
    from cryptography.hazmat.primitives.ciphers.aead import ChaCha20Poly1305

    aead = ChaCha20Poly1305(key)
    frames, pos = [], 0
    while pos < len(wire):
        length = wire[pos:pos + 2]
        n = int.from_bytes(length, "little")
        block = wire[pos + 2:pos + 2 + n + 16]
        nonce = b"\x00" * 4 + counter.to_bytes(8, "little")
        frames.append(aead.decrypt(nonce, block, length))
        counter += 1
        pos += 2 + n + 16
    return frames


def peer_hap_encrypt(key, data, counter=0):
    from cryptography.hazmat.primitives.ciphers.aead import ChaCha20Poly1305

    aead = ChaCha20Poly1305(key)
    out = b""
    frames = []
    while data:
        frame, data = data[:1024], data[1024:]
        length = len(frame).to_bytes(2, "little")
        nonce = b"\x00" * 4 + counter.to_bytes(8, "little")
        out += length + aead.encrypt(nonce, frame, length)
        frames.append(frame)
        counter += 1
    return out, frames


def oracle_hap(ctx, rng):
    from pyatv.auth.hap_session import HAPSession
    from harness.core.prng import split_at

    # send direction: independent peer recovers exactly the plaintext; frames <= 1024
    s = HAPSession()
    s.enable(KEY_OUT, KEY_IN)
    nonces = []
    s.chacha20._enc_out = Spy(s.chacha20._enc_out, nonces)
    counter = 0
    lens = LENGTHS + [rng.randrange(0, 5000) for _ in range(ctx.scale(5, 40))]
    for n in lens:
        data = pattern(rng, n)
        wire = s.encrypt(data)
        ctx.case(["hap-oracle-send", n, counter], n > 1024)
        try:
            frames = peer_hap_decrypt(KEY_OUT, wire, counter)
        except Exception as e:  # noqa: BLE001
            ctx.fail("hap:peer-cannot-decrypt", {"len": n, "counter": counter}, type(e).__name__, "peer recovers plaintext", "independent peer rejects what HAPSession.encrypt produced")
            return
        counter += len(frames)
        if b"".join(frames) != data:
            ctx.fail("hap:plaintext-mismatch", {"len": n}, "differs", "exact plaintext", "peer recovered different plaintext")
        if any(len(f) > 1024 or len(f) == 0 for f in frames) or len(frames) != (n + 1023) // 1024:
            ctx.fail("hap:frame-size", {"len": n}, [len(f) for f in frames], "each 1..1024, ceil(n/1024) frames", "frame size/count wrong")
    # long sequence of small messages: nonce never reused
    for i in range(ctx.scale(3000, 70000)):
        s.encrypt(b"x")
    ctx.case(["hap-oracle-nonces", len(nonces)], True)
    if len(set(nonces)) != len(nonces):
        ctx.fail("hap:nonce-reuse", {"messages": len(nonces)}, "repeat", "all distinct", "a nonce was reused under the output key")
    # receive direction, all 1-cut and sampled 2-cut segmentations
    for msg_len in [1, 1024, 1025, 2100]:
        data = pattern(rng, msg_len)
        wire, _ = peer_hap_encrypt(KEY_IN, data)
        n = len(wire)
        cutsets = [[]] + [[i] for i in (range(1, n) if n <= 1200 or ctx.thorough else sorted(set(rng.sample(range(1, n), 150) + [1, 2, 3, 17, 18, 19, n - 17, n - 16, n - 1])))]
        cutsets += [rng.cuts(n, 2) for _ in range(ctx.scale(60, 600))]
        for cuts in cutsets:
            r = HAPSession()
            r.enable(KEY_OUT, KEY_IN)
            try:
                got = b"".join(r.decrypt(c) for c in split_at(wire, cuts))
            except Exception as e:  # noqa: BLE001
                got = "exc:" + type(e).__name__
            ctx.case(["hap-oracle-recv", msg_len, cuts], bool(cuts))
            if got != data or r._encrypted_data:
                ctx.fail("hap:segmentation", {"len": msg_len, "cuts": cuts}, str(got)[:60], "exact plaintext, empty residual", "split stream decoded differently")
    # duplex: one session, both directions interleaved, independent peer on the other side
    d = HAPSession()
    d.enable(KEY_OUT, KEY_IN)
    out_ctr = in_ctr = 0
    script = []
    for step in range(ctx.scale(60, 400)):
        n = rng.choice([1, 30, 1024, 1025, 2200])
        data = pattern(rng, n)
        direction = "send" if rng.chance(0.5) else "recv"
        script.append((direction, n))
        ctx.case(["hap-oracle-duplex", step, direction, n], True)
        try:
            if direction == "send":
                frames = peer_hap_decrypt(KEY_OUT, d.encrypt(data), out_ctr)
                out_ctr += len(frames)
                got = b"".join(frames)
            else:
                wire, frames = peer_hap_encrypt(KEY_IN, data, in_ctr)
                in_ctr += len(frames)
                got = d.decrypt(wire)
        except Exception as e:  # noqa: BLE001
            got = "exc:" + type(e).__name__
        if got != data:
            ctx.fail("hap:duplex", {"script": script[-12:], "step": step}, str(got)[:40], "exact plaintext in both directions",
                     "interleaved send/receive on one session broke decryption (per-direction counters interact?)")
            break
    # corruption: every single byte of a 3-frame stream
    data = pattern(rng, 1024 + 1024 + 77)
    wire, frames = peer_hap_encrypt(KEY_IN, data)
    prefixes = {b"".join(frames[:k]) for k in range(0, 3)}
    positions = range(len(wire)) if ctx.thorough else sorted(set(list(range(0, 40)) + list(range(1024, 1100)) + rng.sample(range(len(wire)), 400)))
    for pos in positions:
        bad = wire[:pos] + bytes([wire[pos] ^ (1 << rng.randrange(8))]) + wire[pos + 1:]
        r = HAPSession()
        r.enable(KEY_OUT, KEY_IN)
        try:
            got = r.decrypt(bad)
        except Exception:  # noqa: BLE001
            got = None
        ctx.case(["hap-oracle-corrupt", pos], True)
        if got is not None and got not in prefixes:
            ctx.fail("hap:corruption-accepted", {"pos": pos}, "altered or complete plaintext", "exception or strict frame prefix", "corrupted stream yielded plaintext")


def oracle_hap_channel(ctx, rng):
    """Through a real AbstractHAPChannel.data_received (what the AirPlay control/event/data
    channels run): a stream with one corrupted frame, delivered frame by frame and in
    random chunks, must hand the application a prefix (by whole frames) of the plaintext —
    never the stream with a hole in it."""
    from pyatv.auth.hap_channel import AbstractHAPChannel

    class Chan(AbstractHAPChannel):
        def __init__(self, ok, ik):
            super().__init__(ok, ik)
            self.got = b""

        def handle_received(self):
            # like the real event/data channels: whole records are taken out, an incomplete
            # record stays in self.buffer until more plaintext arrives
            rec = self.record
            while len(self.buffer) >= rec:
                self.got += self.buffer[:rec]
                self.buffer = self.buffer[rec:]

    Chan.record = 1
    msgs = [pattern(rng, n) for n in (40, 1024, 300, 7, 1500)]
    wires, frames, ctr = [], [], 0
    for m in msgs:
        w, fr = peer_hap_encrypt(KEY_IN, m, ctr)
        ctr += len(fr)
        wires.append(w)
        frames += fr
    clean = b"".join(wires)
    prefixes = {b"".join(frames[:k]) for k in range(len(frames) + 1)}
    from harness.core.prng import split_at

    positions = [None] + sorted(rng.sample(range(len(clean)), ctx.scale(120, 1200)))
    for pos in positions:
        for mode in ("per-message", "chunks"):
            ch = Chan(KEY_OUT, KEY_IN)
            ch.record = rng.choice([1, 1, 37, 500, 1100, 2000])
            ch.transport = FakeTransport()
            if pos is None:
                bad_wires, bad = wires, clean
            else:
                bad = clean[:pos] + bytes([clean[pos] ^ (1 << rng.randrange(8))]) + clean[pos + 1:]
                bad_wires, o = [], 0
                for w in wires:
                    bad_wires.append(bad[o:o + len(w)])
                    o += len(w)
            reads = bad_wires if mode == "per-message" else split_at(bad, rng.cuts(len(bad), 6))
            for r in reads:
                try:
                    ch.data_received(r)
                except Exception:  # noqa: BLE001
                    break  # asyncio closes the transport on an exception from data_received
            ctx.case(["hap-channel-oracle", pos, mode, ch.record], pos is not None)
            ch.got += ch.buffer   # what the application holds: records taken + the incomplete one
            if pos is None:
                if ch.got != b"".join(msgs):
                    ctx.fail("hap-channel:roundtrip", {"mode": mode}, "differs", "exact plaintext", "clean HAP channel stream not delivered exactly")
            elif ch.got not in prefixes or ch.got == b"".join(msgs):
                ctx.fail("hap-channel:corruption-accepted", {"pos": pos, "mode": mode}, "%d bytes delivered, not a strict frame prefix" % len(ch.got),
                         "a strict prefix of the plaintext by whole frames", "corrupted HAP channel stream delivered altered plaintext (or skipped a frame)")


def oracle_http_over_hap(ctx, rng):
    """The AirPlay control channel: HttpConnection with HAPSession installed as
    receive/send processor exactly as verify_connection does.  A pending request must get
    exactly the response the peer sealed; injected plaintext or corrupted ciphertext must
    never reach the caller as a response."""
    from pyatv.auth.hap_session import HAPSession
    from pyatv.support.http import HttpConnection
    from harness.core import vloop
    from harness.core.prng import split_at

    def build(code, body):
        return (f"HTTP/1.1 {code} OK\r\nContent-Length: {len(body)}\r\nServer: x\r\n\r\n").encode() + body

    async def one(kind, cuts_n):
        conn = HttpConnection()
        conn.transport = FakeTransport()
        sess = HAPSession()
        sess.enable(KEY_OUT, KEY_IN)
        conn.receive_processor = sess.decrypt
        conn.send_processor = sess.encrypt
        body = pattern(rng, rng.choice([0, 10, 1500, 24000]))
        genuine = build(200, body)
        wire, _ = peer_hap_encrypt(KEY_IN, genuine)
        # large enough that the bogus "length prefix" (the first two plaintext bytes) is
        # covered and a tag check is actually attempted on the injected bytes
        forged_body = b"FORGED" + pattern(rng, rng.choice([40, 24000, 70000]))
        if kind == "clean":
            stream = wire
        elif kind == "plaintext-injected":
            stream = build(200, forged_body)            # never sealed by the peer
        elif kind == "corrupt":
            pos = rng.randrange(len(wire))
            stream = wire[:pos] + bytes([wire[pos] ^ (1 << rng.randrange(8))]) + wire[pos + 1:]
        else:  # plaintext appended after a corrupted frame
            pos = rng.randrange(min(len(wire), 1000))
            stream = wire[:pos] + bytes([wire[pos] ^ 0x40]) + wire[pos + 1:] + build(200, forged_body)
        task = asyncio.ensure_future(conn.send_and_receive("GET", "/info", timeout=5))
        await asyncio.sleep(0)
        for chunk in split_at(stream, rng.cuts(len(stream), cuts_n)):
            try:
                conn.data_received(chunk)
            except Exception:  # noqa: BLE001
                conn.connection_lost(None)   # asyncio closes the transport
                break
        try:
            resp = await task
            got = resp.body if isinstance(resp.body, bytes) else str(resp.body).encode()
            return ("response", got, body)
        except Exception as e:  # noqa: BLE001
            return ("error:" + type(e).__name__, b"", body)

    plan = [("clean", n) for n in (0, 1, 3)] + \
           [(k, n) for k in ("plaintext-injected", "corrupt", "corrupt+plaintext") for n in (0, 2)] * ctx.scale(4, 30)
    for kind, n in plan:
        outcome, got, body = vloop.run(one, kind, n)
        ctx.case(["http-over-hap", kind, n, outcome], kind != "clean")
        if kind == "clean":
            if outcome != "response" or got != body:
                ctx.fail("http-hap:roundtrip", {"kind": kind, "cuts": n}, outcome, "the sealed response", "control channel did not deliver the genuine response")
        elif outcome == "response" and not (kind == "corrupt" and got == body):
            ctx.fail("http-hap:unauthenticated-data-delivered", {"kind": kind, "cuts": n}, "caller received %d bytes" % len(got),
                     "an error, never a response that was not sealed by the peer",
                     "data that failed (or never had) authentication reached the HTTP caller as a response")


def oracle_ap2_channel_keys(ctx, rng):
    """Key set-up of the AirPlay 2 event/data channels (AP2Session): every data channel
    must get its own key pair (fresh seed in the salt, the same seed announced to the
    receiver) - two channels with equal keys restart their counters under one key."""
    from pyatv.protocols.airplay import ap2_session
    from harness.core import vloop

    derived, announced = [], []

    class Verifier:
        def encryption_keys(self, salt, out_info, in_info):
            import hashlib

            # like the real HKDF derivation: ONE function of (salt, info) for both directions
            ko = hashlib.sha256((salt + "|" + out_info).encode()).digest()
            ki = hashlib.sha256((salt + "|" + in_info).encode()).digest()
            derived.append((salt, ko, ki))
            return ko, ki

    async def fake_setup_channel(factory, verifier, address, port, salt, out_info, in_info):
        ko, ki = verifier.encryption_keys(salt, out_info, in_info)
        proto = factory(ko, ki)
        return FakeTransport(), proto

    async def scenario(n_sessions, n_channels):
        orig = ap2_session.setup_channel
        ap2_session.setup_channel = fake_setup_channel
        try:
            for _ in range(n_sessions):
                sess = ap2_session.AP2Session("127.0.0.1", 7000, None, None)
                sess.verifier = Verifier()

                async def _setup(body, _s=sess):
                    for st in body.get("streams", []):
                        announced.append(st.get("seed"))
                    return {"eventPort": 1, "streams": [{"dataPort": 2}]}

                sess._setup = _setup
                for _ in range(n_channels):
                    await sess._setup_data_channel("127.0.0.1")
        finally:
            ap2_session.setup_channel = orig

    for n_sessions, n_channels in [(1, 1), (1, 2), (1, 3), (2, 2)] + [(rng.randrange(1, 3), rng.randrange(1, 4)) for _ in range(ctx.scale(3, 20))]:
        del derived[:], announced[:]
        try:
            vloop.run(scenario, n_sessions, n_channels)
        except Exception as e:  # noqa: BLE001
            ctx.fail("ap2-keys:setup-raises", {"sessions": n_sessions, "channels": n_channels}, type(e).__name__, "channels set up", "data channel set-up raised")
            continue
        ctx.case(["ap2-keys", n_sessions, n_channels], n_channels > 1)
        keys = [(ko, ki) for (_s, ko, ki) in derived]
        if len(set(keys)) != len(keys):
            ctx.fail("ap2-keys:data-channels-share-keys", {"sessions": n_sessions, "channels": n_channels}, "two data channels derived identical keys",
                     "a fresh key pair per data channel", "two data channels under one key restart their nonce counters at 0 (nonce reuse)")
        for (salt, _ko, _ki), seed in zip(derived, announced):
            if not salt.endswith(str(seed)):
                ctx.fail("ap2-keys:seed-mismatch", {"salt": salt[-24:], "announced": seed}, "salt does not carry the announced seed",
                         "salt = DataStream-Salt + announced seed", "receiver and client would derive different keys")


def oracle_ap2_sealing_keys(ctx, rng):
    """Every key pyatv SEALS under during one AirPlay 2 streaming session - control channel
    (verify_connection), event channel replies (_setup_base), audio packets
    (setup_audio_stream: the key announced as `shk`) - through the real AirPlayV2.setup().
    Each of these ciphers starts its nonce counter at 0, so two of them under one key repeat
    (key, nonce) pairs with different plaintexts.  Keys are derived by a stand-in for the
    verifier that, like HKDF, is one function of (salt, info)."""
    import hashlib
    import plistlib

    from pyatv.auth.hap_pairing import parse_credentials
    from pyatv.protocols.airplay import auth as airplay_auth
    from pyatv.protocols.raop.protocols import StreamContext, airplayv2
    from pyatv.support.http import HttpConnection, HttpResponse
    from harness.core import vloop

    def scenario(secret):
        log = []

        class Verifier:
            async def verify_credentials(self):
                return True

            def encryption_keys(self, salt, out_info, in_info):
                ko = hashlib.sha256((secret + "|" + salt + "|" + out_info).encode()).digest()
                ki = hashlib.sha256((secret + "|" + salt + "|" + in_info).encode()).digest()
                log.append((salt, out_info, in_info, ko, ki))
                return ko, ki

        sealing = []
        announced = []

        async def fake_setup_channel(factory, verifier, address, port, salt, out_info, in_info):
            ko, ki = verifier.encryption_keys(salt, out_info, in_info)
            sealing.append(("event-channel", ko))
            return FakeTransport(), factory(ko, ki)

        class Rtsp:
            session_id = 0x1234

            def __init__(self):
                self.connection = HttpConnection()
                self.connection.transport = FakeTransport()
                self.connection._remote_ip = "127.0.0.1"

            async def setup(self, headers=None, body=None):
                for st in (body or {}).get("streams", []):
                    if "shk" in st:
                        announced.append(bytes(st["shk"]))
                return HttpResponse("RTSP", "1.0", 200, "OK", {}, plistlib.dumps(
                    {"eventPort": 7001, "streams": [{"controlPort": 6001, "dataPort": 6000}]}, fmt=plistlib.FMT_BINARY))

        async def run():
            orig = (airplay_auth.pair_verify, airplayv2.setup_channel)
            airplay_auth.pair_verify = lambda credentials, connection: Verifier()
            airplayv2.setup_channel = fake_setup_channel
            try:
                context = StreamContext()
                context.reset()
                context.credentials = parse_credentials(None)
                rtsp = Rtsp()
                enabled = []
                from pyatv.auth import hap_session as hs_mod
                orig_enable = hs_mod.HAPSession.enable

                def enable(self, output_key, input_key):
                    enabled.append(bytes(output_key))
                    return orig_enable(self, output_key, input_key)

                hs_mod.HAPSession.enable = enable
                try:
                    proto = airplayv2.AirPlayV2(context, rtsp)
                    await proto.setup(timing_server_port=5000, control_client_port=5001)
                finally:
                    hs_mod.HAPSession.enable = orig_enable
                # the control channel's and the event channel's sessions were enabled with these keys
                for k in enabled:
                    if ("event-channel", k) not in sealing:
                        sealing.append(("control-or-channel", k))
                for k in announced:
                    sealing.append(("audio", k))
                if proto._cipher is None:
                    sealing.append(("audio-cipher-missing", b""))
            finally:
                airplay_auth.pair_verify, airplayv2.setup_channel = orig
            return sealing, announced

        return vloop.run(run)

    for i in range(ctx.scale(3, 20)):
        secret = "s%d-%d" % (i, rng.randrange(1 << 30))
        try:
            sealing, announced = scenario(secret)
        except Exception as e:  # noqa: BLE001
            ctx.fail("ap2-sealing-keys:setup-raises", {"secret": secret}, type(e).__name__ + ": " + str(e)[:100], "session set up", "AirPlay 2 stream set-up raised")
            return
        ctx.case(["ap2-sealing-keys", secret, len(sealing)], len(sealing) >= 3)
        if not announced or len(sealing) < 3:
            ctx.fail("ap2-sealing-keys:incomplete", {"secret": secret, "ciphers": [n for n, _k in sealing]}, "fewer than three sealing ciphers observed",
                     "control channel, event channel and audio stream keys", "the session did not set up its three encrypted channels")
            continue
        keys = [k for _n, k in sealing]
        if len(set(keys)) != len(keys):
            dup = sorted({n for n, k in sealing if keys.count(k) > 1})
            ctx.fail("ap2-sealing-keys:ciphers-share-key", {"ciphers": dup}, "two sealing ciphers (both counting nonces from 0) use one key: %s" % dup,
                     "a distinct key per sealing cipher", "nonce reuse: (key, nonce) pairs repeat between two channels of one AirPlay 2 session")


def oracle_companion(ctx, rng):
    from cryptography.hazmat.primitives.ciphers.aead import ChaCha20Poly1305
    from pyatv.protocols.companion.connection import CompanionConnection, FrameType
    from harness.core.prng import split_at

    conn = CompanionConnection(None, "h", 0)
    conn.transport = tr = FakeTransport()
    conn.enable_encryption(KEY_OUT, KEY_IN)
    nonces = []
    conn._chacha._enc_out = Spy(conn._chacha._enc_out, nonces)
    peer = ChaCha20Poly1305(KEY_OUT)
    counter = 0
    sent = []
    for n in [1, 0, 2, 100, 0, 0, 1024, 4000, 65535] + [rng.choice([0, rng.randrange(1, 2000)]) for _ in range(ctx.scale(20, 200))]:
        data = pattern(rng, n)
        del tr.writes[:]
        conn.send(FrameType.E_OPACK if n else FrameType.NoOp, data)
        w = b"".join(tr.writes)
        header, body = w[:4], w[4:]
        ctx.case(["comp-oracle-send", n, counter], True)
        if n == 0:
            # an empty frame is not sealed by the wire format: header only, counter untouched
            if w != bytes([FrameType.NoOp.value, 0, 0, 0]):
                ctx.fail("companion:empty-frame-wire", {"counter": counter}, w.hex(), "4-byte header with length 0 and nothing else",
                         "empty Companion frame is not written as a bare header (the peer mis-frames what follows)")
            sent.append(w)
            continue
        if int.from_bytes(header[1:], "big") != len(body) or len(body) != n + 16:
            ctx.fail("companion:length-field", {"len": n}, header.hex(), "payload+tag", "Companion length field does not cover ciphertext+tag")
        try:
            pt = peer.decrypt(counter.to_bytes(12, "little"), body, header)
        except Exception as e:  # noqa: BLE001
            ctx.fail("companion:peer-cannot-decrypt", {"len": n, "counter": counter}, type(e).__name__, "peer recovers plaintext", "peer rejects Companion frame")
            return
        if pt != data:
            ctx.fail("companion:plaintext-mismatch", {"len": n}, "differs", "exact", "peer recovered different plaintext")
        counter += 1
        sent.append(w)
    if len(set(nonces)) != len(nonces):
        ctx.fail("companion:nonce-reuse", {"messages": len(nonces)}, "repeat", "all distinct", "nonce reused")
    # receive side, frame sizes around and above 64 KiB (the length field has three bytes)
    bigpeer = ChaCha20Poly1305(KEY_IN)
    for sizes in ([65519, 3], [65520, 1], [65536, 70000, 2], [rng.randrange(65000, 200000), 5]):
        bigs = [pattern(rng, n) for n in sizes]
        bw = b""
        for i, p_ in enumerate(bigs):
            h_ = bytes([FrameType.E_OPACK.value]) + (len(p_) + 16).to_bytes(3, "big")
            bw += h_ + bigpeer.encrypt(i.to_bytes(12, "little"), p_, h_)
        bgot = []

        class BL:
            def frame_received(self, frame_type, data):
                bgot.append(bytes(data))

        bc = CompanionConnection(None, "h", 0)
        bc.set_listener(BL())
        bc.enable_encryption(KEY_OUT, KEY_IN)
        bcuts = rng.cuts(len(bw), rng.choice([0, 1, 3]))
        try:
            for chunk in split_at(bw, bcuts):
                bc.data_received(chunk)
        except Exception as e:  # noqa: BLE001
            bgot.append(("exc:" + type(e).__name__).encode())
        ctx.case(["comp-oracle-recv-large", sizes, bcuts], True)
        if bgot != bigs:
            ctx.fail("companion:large-frame-roundtrip", {"sizes": sizes, "cuts": bcuts}, [len(x) for x in bgot], sizes,
                     "Companion frames of 64 KiB or more from the peer are not delivered exactly")
    # receive with corruption: delivered non-empty payloads must be a subsequence of what was sent
    inpeer = ChaCha20Poly1305(KEY_IN)
    payloads = [pattern(rng, n) for n in (5, 300, 1, 1200)]
    known = {t.value for t in FrameType}
    odd = rng.choice([v for v in range(256) if v not in known])
    # the peer also sends frames of a type pyatv does not know (before, between and after the
    # others): they are skipped, and everything else must still be recovered exactly
    plan = [(FrameType.E_OPACK.value, payloads[0]), (odd, pattern(rng, 40)), (FrameType.E_OPACK.value, payloads[1]),
            (0x2A if 0x2A not in known else odd, pattern(rng, 1)), (FrameType.E_OPACK.value, payloads[2]),
            (FrameType.E_OPACK.value, payloads[3]), (odd, pattern(rng, 700))]
    wire = b""
    for i, (t, p) in enumerate(plan):
        header = bytes([t]) + (len(p) + 16).to_bytes(3, "big")
        wire += header + inpeer.encrypt(i.to_bytes(12, "little"), p, header)
    positions = [None] + (list(range(len(wire))) if ctx.thorough else sorted(set(list(range(0, 30)) + rng.sample(range(len(wire)), 250))))
    # besides bit flips: the (authenticated) length field of every frame rewritten to every
    # small value and to its neighbours - a frame shorter than a tag must not be taken as is
    starts, o_ = [], 0
    for (_t, p_) in plan:
        starts.append((o_, len(p_) + 16))
        o_ += 4 + len(p_) + 16
    for (st, ln) in starts:
        for n in list(range(0, 19)) + [ln - 1, ln + 1, ln - 16, 255, 256]:
            if 0 <= n < 2 ** 24 and n != ln:
                positions.append(("len", st, n))
    for pos in positions:
        if pos is None:
            w = wire
        elif isinstance(pos, tuple):
            w = wire[:pos[1] + 1] + pos[2].to_bytes(3, "big") + wire[pos[1] + 4:]
        else:
            w = wire[:pos] + bytes([wire[pos] ^ (1 << rng.randrange(8))]) + wire[pos + 1:]
        got = []

        class L:
            def frame_received(self, frame_type, data):
                got.append((frame_type.value, bytes(data)))

        c = CompanionConnection(None, "h", 0)
        c.set_listener(L())
        c.enable_encryption(KEY_OUT, KEY_IN)
        cuts = rng.cuts(len(w), rng.choice([0, 1, 2]))
        try:
            for chunk in split_at(w, cuts):
                c.data_received(chunk)
        except Exception as e:  # noqa: BLE001
            got.append(("exc", type(e).__name__.encode()))
        ctx.case(["comp-oracle-recv", list(pos) if isinstance(pos, tuple) else pos, cuts], True)
        nonempty = [p for (_t, p) in got if p]
        if pos is None:
            if nonempty != payloads:
                ctx.fail("companion:roundtrip", {"cuts": cuts}, [len(p) for p in nonempty], [len(p) for p in payloads], "clean Companion stream not delivered exactly")
        else:
            it = iter(payloads)
            if not all(any(p == q for q in it) for p in nonempty) or nonempty == payloads and False:
                ctx.fail("companion:corruption-accepted", {"pos": pos}, [p[:8].hex() for p in nonempty], "subsequence of sent payloads", "corrupted Companion stream delivered altered plaintext")
            elif isinstance(pos, int):
                # a flip inside the ciphertext/tag of ONE frame (its header intact) costs that frame
                # only: every frame sent before and after it is still recovered (the receive counter
                # advances with the rejected frame, as the model's `feed` does)
                hit = [i for i, (s0, ln) in enumerate(starts) if s0 + 4 <= pos < s0 + 4 + ln]
                if hit and not any(t_ == "exc" for (t_, _p) in got):
                    want = [p for i, (t_, p) in enumerate(plan) if i != hit[0] and t_ == FrameType.E_OPACK.value]
                    if nonempty != want:
                        ctx.fail("companion:valid-frame-after-corruption-lost", {"pos": pos, "frame": hit[0]}, [len(p) for p in nonempty],
                                 [len(p) for p in want], "valid Companion frames sent after a corrupted one were not recovered")


def ref_read_varint(buf):
    """independent protobuf varint reader (base-128, little-endian groups)"""
    n, shift, i = 0, 0, 0
    while True:
        if i >= len(buf):
            return None, b""
        b = buf[i]
        n |= (b & 0x7F) << shift
        i += 1
        if not b & 0x80:
            return n, buf[i:]
        shift += 7


def oracle_mrp_send(ctx, rng):
    """what MrpConnection writes, read by an independent peer: varint length (own reader)
    must cover exactly the ciphertext, which must open to the plaintext under counter i"""
    from cryptography.hazmat.primitives.ciphers.aead import ChaCha20Poly1305
    from pyatv.protocols.mrp.connection import MrpConnection

    conn = MrpConnection("h", 0, None)
    conn._transport = tr = FakeTransport()
    conn.enable_encryption(KEY_OUT, KEY_IN)
    peer = ChaCha20Poly1305(KEY_OUT)
    lens = [0, 1, 100, 111, 112, 113, 127, 128, 16367, 16368, 16369, 16383, 16384, 16400, 16495, 16496, 40000] + \
           [rng.randrange(0, 20000) for _ in range(ctx.scale(20, 200))]
    stream = b""
    sent = []
    for n in lens:
        data = pattern(rng, n)
        sent.append(data)
        del tr.writes[:]
        conn.send_raw(data)
        stream += b"".join(tr.writes)
    got = []
    rest = stream
    for i in range(len(sent)):
        n, rest2 = ref_read_varint(rest)
        ctx.case(["mrp-oracle-send", lens[i]], True)
        if n is None or len(rest2) < n:
            ctx.fail("mrp:send-length-prefix", {"len": lens[i], "index": i}, "length prefix does not delimit the message", "varint(len(ct)) ++ ct",
                     "MRP length prefix written by send cannot be read by an independent peer")
            return
        ct, rest = rest2[:n], rest2[n:]
        try:
            pt = peer.decrypt(b"\x00" * 4 + i.to_bytes(8, "little"), ct, None)
        except Exception as e:  # noqa: BLE001
            ctx.fail("mrp:peer-cannot-decrypt", {"len": lens[i], "index": i}, type(e).__name__, "peer recovers plaintext", "independent peer rejects an MRP message")
            return
        if pt != sent[i]:
            ctx.fail("mrp:plaintext-mismatch", {"len": lens[i]}, "differs", "exact", "peer recovered different plaintext")
            return
    if rest:
        ctx.fail("mrp:send-trailing-bytes", {"trailing": len(rest)}, "bytes left over", "stream = messages", "MRP stream has bytes outside any message")


def oracle_mrp(ctx, rng):
    """Encrypted MRP stream from an independent peer, every 1-cut (sampled in quick) and
    random multi-cuts: the messages delivered are exactly the messages sent."""
    from cryptography.hazmat.primitives.ciphers.aead import ChaCha20Poly1305
    from pyatv.protocols.mrp.connection import MrpConnection
    from pyatv.protocols.mrp import messages, protobuf
    from pyatv.support.variant import write_variant
    from harness.core.prng import split_at

    peer = ChaCha20Poly1305(KEY_IN)
    plain = [messages.create(protobuf.GENERIC_MESSAGE, identifier="m%d" % i + "y" * n).SerializeToString()
             for i, n in enumerate([0, 90, 128, 300, 5, 17000, 1])]
    wire = b""
    for i, p in enumerate(plain):
        ct = peer.encrypt(b"\x00" * 4 + i.to_bytes(8, "little"), p, None)
        wire += write_variant(len(ct)) + ct
    n = len(wire)
    near = set()
    pos = 0
    for i, p in enumerate(plain):  # cut points around every message boundary
        ln = len(write_variant(len(p) + 16)) + len(p) + 16
        for d in range(-4, 5):
            near.update([pos + d, pos + ln + d])
        pos += ln
    cutsets = [[c] for c in (range(1, n) if ctx.thorough else sorted(c for c in near | set(rng.sample(range(1, n), 200)) if 0 < c < n))]
    cutsets += [rng.cuts(n, rng.choice([2, 3, 8])) for _ in range(ctx.scale(100, 1000))]
    for cuts in [[]] + cutsets:
        got = []

        class L:
            def message_received(self, parsed, raw):
                got.append(bytes(raw))

            def stop(self):
                pass

        keep = L()
        c = MrpConnection("h", 0, None)
        c.listener = keep
        c.enable_encryption(KEY_OUT, KEY_IN)
        try:
            for chunk in split_at(wire, cuts):
                c.data_received(chunk)
        except Exception as e:  # noqa: BLE001
            got.append(("exc:" + type(e).__name__).encode())
        ctx.case(["mrp-oracle-recv", cuts], bool(cuts))
        if got != plain:
            ctx.fail("mrp:segmentation", {"cuts": cuts}, "%d of %d messages delivered correctly" % (sum(1 for a, b in zip(got, plain) if a == b), len(plain)),
                     "every message delivered exactly once, in order", "encrypted MRP stream decoded differently when split")
            break


def oracle_audio(ctx, rng):
    from cryptography.hazmat.primitives.ciphers.aead import ChaCha20Poly1305
    from pyatv.protocols.raop.protocols.airplayv2 import AirPlayV2
    from pyatv.protocols.raop.protocols import StreamContext
    from pyatv.support.chacha20 import Chacha20Cipher8byteNonce

    ap = AirPlayV2(StreamContext(), None)
    ap._cipher = Chacha20Cipher8byteNonce(KEY_OUT, KEY_OUT)
    peer = ChaCha20Poly1305(KEY_OUT)
    loop = asyncio.new_event_loop()
    seen = set()
    try:
        for i in range(ctx.scale(400, 70000)):
            header = rng.bytes_(12)
            audio = pattern(rng, 64 if i > 50 else rng.choice([0, 1, 1408]))
            tr = FakeTransport()
            loop.run_until_complete(ap.send_audio_packet(tr, header, audio))
            pkt = tr.writes[0]
            n8 = pkt[-8:]
            if i < 200 or i % 97 == 0:
                ctx.case(["audio-oracle", i], i > 0)
            if n8 in seen:
                ctx.fail("audio:nonce-reuse", {"packet": i}, n8.hex(), "fresh nonce", "audio packet nonce reused")
                break
            seen.add(n8)
            if i < 300 or i % 211 == 0:
                try:
                    pt = peer.decrypt(b"\x00" * 4 + n8, pkt[12:-8], header[4:12])
                except Exception as e:  # noqa: BLE001
                    ctx.fail("audio:peer-cannot-decrypt", {"packet": i}, type(e).__name__, "payload opens under the appended nonce", "appended nonce is not the sealing nonce")
                    break
                if pt != audio or pkt[:12] != header:
                    ctx.fail("audio:plaintext-mismatch", {"packet": i}, "differs", "exact", "audio payload differs")
                    break
    finally:
        loop.close()


def oracle_audio_retransmit(ctx, rng):
    """AirPlay 2 audio through the real StreamClient._send_packet (backlog) and the real
    ControlClient retransmit path: a packet that the receiver reports as lost is re-sent
    from the backlog, and the receiver holding the stream key must recover exactly the
    audio of that packet from the re-sent copy too (never cleartext, never another packet)."""
    import plistlib

    from cryptography.hazmat.primitives.ciphers.aead import ChaCha20Poly1305
    from pyatv.protocols.raop.packets import RetransmitReqeust
    from pyatv.protocols.raop.protocols import StreamContext
    from pyatv.protocols.raop.protocols.airplayv2 import AirPlayV2
    from pyatv.protocols.raop.stream_client import ControlClient, StreamClient
    from pyatv.support.http import HttpResponse
    from harness.core import vloop

    class Verifier:
        def encryption_keys(self, salt, out_info, in_info):
            return KEY_OUT, KEY_IN

    class Rtsp:
        session_id = 0x11223344

        async def setup(self, headers=None, body=None):
            return HttpResponse("RTSP", "1.0", 200, "OK", {},
                                plistlib.dumps({"streams": [{"controlPort": 6001, "dataPort": 6000}]}, fmt=plistlib.FMT_BINARY))

    class Udp(FakeTransport):
        def is_closing(self):
            return False

    class Source:
        def __init__(self, size):
            self.size, self.frames = size, []

        async def readframes(self, _n):
            self.frames.append(pattern(rng, self.size))
            return self.frames[-1]

    def open_packet(pkt):
        return ChaCha20Poly1305(KEY_OUT).decrypt(b"\x00" * 4 + pkt[-8:], pkt[12:-8], pkt[4:12])

    async def scenario(first_seq, count, requests):
        context = StreamContext()
        context.reset()
        context.rtpseq = first_seq
        rtsp = Rtsp()
        proto = AirPlayV2(context, rtsp)
        proto._verifier = Verifier()
        await proto.setup_audio_stream(control_client_port=1234)
        client = StreamClient(rtsp, context, proto, None)
        client.control_client = ControlClient(context, client._packet_backlog)
        ctrl = Udp()
        client.control_client.connection_made(ctrl)
        audio = Udp()
        src = Source(context.packet_size)
        for i in range(count):
            await client._send_packet(src, i == 0, audio)
        out = []
        for lost, n in requests:
            del ctrl.writes[:]
            client.control_client.datagram_received(RetransmitReqeust.encode(0x80, 0x55 | 0x80, 1, lost, n), ("127.0.0.1", 6001))
            out.append(list(ctrl.writes))
        return audio.writes, src.frames, out

    for _ in range(ctx.scale(6, 60)):
        first = rng.choice([0, 1, 65533, 65535, rng.randrange(65536)])
        count = rng.choice([1, 3, 6, 20])
        reqs = [((first + rng.randrange(count)) % 65536, rng.randrange(1, 4)) for _ in range(3)]
        try:
            sent, frames, resent = vloop.run(scenario, first, count, reqs)
        except Exception as e:  # noqa: BLE001
            ctx.fail("audio-retransmit:raises", {"first": first, "count": count}, type(e).__name__ + ": " + str(e)[:80], "packets sent and re-sent", "audio send/retransmit path raised")
            continue
        ctx.case(["audio-retransmit", first, count, reqs], True)
        if len(sent) != count:
            ctx.fail("audio-retransmit:sent-count", {"first": first, "count": count}, len(sent), count, "number of audio packets on the wire")
            continue
        for (lost, n), answers in zip(reqs, resent):
            want = [(lost + k) % 65536 for k in range(n) if ((lost + k - first) % 65536) < count]
            if len(answers) != len(want):
                ctx.fail("audio-retransmit:count", {"first": first, "count": count, "lost": lost, "n": n}, len(answers), len(want), "packets re-sent for a retransmit request")
                continue
            for seq, resp in zip(want, answers):
                idx = (seq - first) % 65536
                inner = resp[4:]
                case = {"first": first, "count": count, "lost": lost, "n": n, "seq": seq}
                try:
                    pt = open_packet(inner)
                except Exception as e:  # noqa: BLE001
                    ctx.fail("audio-retransmit:peer-cannot-decrypt", case, type(e).__name__ + (" (audio in clear)" if frames[idx] in inner else ""),
                             "the re-sent packet opens under the stream key to the packet's audio",
                             "a packet re-sent from the backlog cannot be opened by the receiver")
                    break
                if pt != frames[idx] or resp[:2] != b"\x80\xd6" or resp[2:4] != seq.to_bytes(2, "big") or inner != sent[idx]:
                    ctx.fail("audio-retransmit:plaintext-mismatch", case, "differs", "the packet exactly as first sent", "re-sent audio packet differs from the one sent")
                    break


def oracle_http_hap_concurrent(ctx, rng):
    """Several requests in flight on one HAP-framed HttpConnection (the AirPlay control
    channel with its periodic /feedback next to user commands), including bodies far above
    64 KiB: everything written to the transport, read by an independent peer, must be
    exactly the requests, each whole, in the order they were sealed - also when one of the
    callers is cancelled or times out half way."""
    from pyatv.auth.hap_session import HAPSession
    from pyatv.support.http import HttpConnection
    from harness.core import vloop

    async def scenario(sizes, cancel_idx, cancel_after):
        conn = HttpConnection()
        conn.transport = tr = FakeTransport()
        sess = HAPSession()
        sess.enable(KEY_OUT, KEY_IN)
        sealed = []

        def send_processor(data):
            sealed.append(bytes(data))
            return sess.encrypt(data)

        conn.receive_processor = sess.decrypt
        conn.send_processor = send_processor
        tasks = []
        for i, n in enumerate(sizes):
            tasks.append(asyncio.ensure_future(conn.send_and_receive(
                "POST", "/r%d" % i, body=pattern(rng, n), headers={"Content-Type": "application/octet-stream"}, timeout=5)))
            if rng.chance(0.5):
                await asyncio.sleep(0)
        for k in range(6):
            if cancel_idx is not None and k == cancel_after:
                tasks[cancel_idx].cancel()
            await asyncio.sleep(0)
        # a later request, after whatever happened to the earlier ones
        tasks.append(asyncio.ensure_future(conn.send_and_receive("GET", "/late", timeout=5)))
        for _ in range(6):
            await asyncio.sleep(0)
        wire = b"".join(tr.writes)
        for t in tasks:
            t.cancel()
        await asyncio.gather(*tasks, return_exceptions=True)
        return wire, sealed

    plans = [([200000, 10], None, 0), ([70000, 0, 66000], None, 0), ([10, 20], None, 0), ([150000, 5], 0, 0), ([150000, 5], 0, 1)]
    for _ in range(ctx.scale(4, 40)):
        sizes = [rng.choice([0, 100, 1024, 63000, 65536, 66000, 140000]) for _ in range(rng.randrange(1, 4))]
        ci = rng.choice([None, None, rng.randrange(len(sizes))])
        plans.append((sizes, ci, rng.randrange(0, 4)))
    for sizes, ci, ca in plans:
        try:
            wire, sealed = vloop.run(scenario, sizes, ci, ca)
        except Exception as e:  # noqa: BLE001
            ctx.fail("http-hap-concurrent:raises", {"sizes": sizes, "cancel": ci, "after": ca}, type(e).__name__ + ": " + str(e)[:80], "requests written", "concurrent requests raised")
            continue
        ctx.case(["http-hap-concurrent", sizes, ci, ca], len(sizes) > 1 and max(sizes) > 65536)
        try:
            frames = peer_hap_decrypt(KEY_OUT, wire)
            got, why = b"".join(frames), ""
            if any(len(f) > 1024 for f in frames):
                got, why = None, "frame above 1024 bytes"
        except Exception as e:  # noqa: BLE001
            got, why = None, type(e).__name__
        if got is None or got != b"".join(sealed):
            ctx.fail("http-hap-concurrent:stream-broken", {"sizes": sizes, "cancel": ci, "after": ca},
                     "peer: %s" % (why if got is None else "%d bytes recovered, %d sealed" % (len(got), sum(map(len, sealed)))),
                     "the peer opens the whole stream to the requests in sealing order",
                     "concurrent requests on the HAP-framed control channel are not recoverable by the peer")
        elif b"/late" not in got:
            ctx.fail("http-hap-concurrent:late-request-missing", {"sizes": sizes, "cancel": ci, "after": ca}, "request not on the wire", "the later request is sealed and written", "request after a cancelled one never reached the peer")


def run(ctx):
    rng = ctx.rng
    batches = []
    c, l = corr_hap_send(ctx, rng.fork("hap-send"))
    batches.append((c, l, lambda a: a))
    c, l = corr_hap_recv(ctx, rng.fork("hap-recv"))
    batches.append((c, l, lambda a: a if a == "ok" else canon_hapfeed(a)))
    c, l = corr_hap_duplex(ctx, rng.fork("hap-duplex"))
    batches.append((c, l, lambda a: a if (a == "ok" or a.startswith("err:") or len(a.split(" ")) == 2) else canon_hapfeed(a)))
    c, l, valid = corr_companion(ctx, rng.fork("companion"))

    def comp_canon(a):
        if a == "ok" or a.startswith("err:") or len(a.split(" ")) == 2:
            return a
        return canon_compfeed(a, valid)

    batches.append((c, l, comp_canon))
    c, l = corr_mrp(ctx, rng.fork("mrp"))

    def mrp_canon(a):
        if a.startswith("err:"):
            return a
        p, ctr = a.split(" ")
        return a  # sends compare as strings; handled below for recv

    batches.append((c, l, mrp_canon))
    c, l = corr_audio(ctx, rng.fork("audio"))
    batches.append((c, l, lambda a: a))

    all_lines = [x for (_c, l, _f) in batches for x in l]
    answers = ctx.lean(all_lines)
    k = 0
    for cases, lines, canon in batches:
        for (key, impl, nontrivial), line in zip(cases, lines):
            ans = answers[k]
            k += 1
            if key is None:
                if ans != "ok":
                    ctx.disagree(line, "ok", ans, where="reset")
                continue
            ctx.note("op:" + key[0])
            ctx.case(list(map(str, key)), nontrivial)
            if key[0] == "mrp-recv":
                p, ctr = ans.split(" ")
                model = ((p,) if not p.startswith("!") else (), int(ctr))
                impl_c = (tuple(impl[0]), impl[1])
            else:
                model = canon(ans)
                impl_c = impl
            ctx.validated()
            if model != impl_c:
                ctx.disagree({"op": key[0], "key": [str(x) for x in key], "line": line[:200]}, str(impl_c)[:300], str(model)[:300], where=key[0])

    oracle_hap(ctx, rng.fork("oracle-hap"))
    oracle_hap_channel(ctx, rng.fork("oracle-hap-channel"))
    oracle_http_over_hap(ctx, rng.fork("oracle-http-hap"))
    oracle_ap2_channel_keys(ctx, rng.fork("oracle-ap2-keys"))
    oracle_ap2_sealing_keys(ctx, rng.fork("oracle-ap2-sealing-keys"))
    oracle_companion(ctx, rng.fork("oracle-comp"))
    oracle_mrp(ctx, rng.fork("oracle-mrp"))
    oracle_mrp_send(ctx, rng.fork("oracle-mrp-send"))
    oracle_audio(ctx, rng.fork("oracle-audio"))
    oracle_audio_retransmit(ctx, rng.fork("oracle-audio-retransmit"))
    oracle_http_hap_concurrent(ctx, rng.fork("oracle-http-hap-concurrent"))
