"""C05 — hostile or malformed network input is contained.

Real code driven in-process (no sockets): `dns.parse_domain_name`, `DnsMessage().unpack`,
`opack.unpack`, `hap_tlv8.read_tlv`, `dmap.parser.parse`, `variant.read_variant`, the receive
loops `MrpConnection.data_received`, `CompanionConnection.data_received`, `HAPSession.decrypt`,
`DataStreamChannel.handle_received`, `BaseDataStreamChannel.decode_protobufs`,
`EventChannel.handle_received`, `HttpConnection.data_received`, `BasicHttpServer.data_received`,
`airplay.utils.update_service_details` (status flags) / `companion.service_info` (`int(x, 16)`), and — through
`pyatv.scan` with the socket layer replaced (harness/c12.py fakes) — `ReceiveDelegate`,
`MulticastDnsSdClientProtocol.datagram_received`, `UnicastDnsSdClientProtocol`, `ServiceParser`,
`BaseScanner.handle_response` / `discover`.

Observation point of the property: every decode call runs under `sys.settrace` with a hard
budget of interpreter line events (a hang is an observation, not a hung check; a SIGALRM
watchdog covers loops inside C code).  Counted per call: all line events in pyatv code, and
the number of times the decoder's own loop head is reached (`while` line located through the
AST of the function under test) resp. the number of `_parse` frames.

Calls that hand a network-controlled *string* to C code (regular expressions, `int()`, codecs) cannot be
bounded by a line budget or a Python signal handler: the per-service discovery pipeline (`handle_response`
-> protocol handler, `discover` -> device_info extractors + `service_info`, `get_unique_id`) for every TXT
key the protocol modules read, the string parsers (status flags via `update_service_details`, `parse_features`, `lookup_version`,
`lookup_os`, `parse_request`, `parse_response`, IDNA labels) and every whole-scan isolation run are
therefore executed in a child process (`python -m harness.c05 --child`) under a wall-clock budget that
grows linearly with the input size; a child that does not answer is killed and that is the observation.
Hostile strings = near-matches (repeats pumped 1/6/20/40/60 times, failing suffix / infix) of every regular
expression that `tools/gen/c05.py` extracts from the tree under test, plus long digit runs and repeated
separators.

* correspondence: outcome class (value / exception class), stream position or bytes left, and
  the loop-iteration count are compared with the Lean driver on the same bytes.
* direct oracle (model-independent): the call returns or raises an ordinary exception
  (`Exception`; `RecursionError` is accepted for the three recursive decoders — `read_tlv`,
  DMAP `_parse`, OPACK `_unpack` use one Python frame per item / tag / nesting level, so depth is
  limited by the interpreter, which raises an ordinary exception) within the event budget, and
  `events <= c * (iterations + 1) + c0` with c calibrated per decoder on valid inputs (so the
  work per iteration of the proved-bounded loop is constant); `discover()` with one hostile host
  returns exactly the configurations (incl. pairing requirements) of the well-formed hosts.
"""
import ast
import inspect
import io
import itertools
import json
import signal
import struct
import sys
import textwrap

PROPS_FILES = ["PyatvModel/Props/C05.lean", "PyatvModel/Props/C05Dns.lean", "PyatvModel/Props/C05Discover.lean",
               "PyatvModel/Props/C05Regex.lean"]
GEN_MODULES = ["c05", "c02"]       # Gen/C05Regex (patterns applied to network strings), Gen/C02Consts (header layouts)
LEAN_TARGETS = ["PyatvModel.Props.C05", "PyatvModel.Props.C05Dns", "PyatvModel.Props.C05Discover",
                "PyatvModel.Props.C05Regex",
                "PyatvModel.C05.Driver"]
DRIVER = "Driver/C05.lean"

RULE = ("per decoder: every byte string up to length k over the decoder's dispatch bytes (k = 4..6 quick, "
        "5..8 thorough; token-exhaustive for header-structured formats: data-stream sizes 0..40, HTTP line "
        "tokens, DMAP tag/length tokens, HAP block lengths); structure-aware mutations of valid messages "
        "(length bytes, header counts, compression pointers incl. self / forward / cyclic, truncation, "
        "nesting depth); discovery: 1..4 well-formed devices x one hostile host (garbage datagrams, pointer "
        "loops, TXT values on which handlers / device_info / service_info raise) x multicast and unicast "
        "scanner; a hostile host at its own address that copies a good device's identifiers / names and answers first; "
        "HTTP messages with every Content-Length value from -(size+8) to +6, huge and non-numeric ones through all three "
        "HTTP receive loops; RAOP control datagrams (type x sequence numbers around the 2^16 wrap x counts up to 65535) "
        "and timing datagrams; announcements that LACK what a later step expects (every TXT key the consumers of a service "
        "type read dropped / emptied / without '=' / twice, no TXT / SRV / A / PTR, _device-info without model); ~150 well-formed DNS messages with hostile record CONTENT (PTR/SRV targets and owners that are not "
        "instance/host/type names, ports 0/65535, TXT without '=', empty / 1- / 2-label names, records owned by the bare "
        "type, mismatched record types, instance names the handlers split) from a host that answers every unicast query; "
        "every TXT key read by a protocol module x near-match strings of every extracted regex (in a child "
        "process, wall-clock budget). non-trivial = the decoder raised, or looped more than once, or a hostile host was present; "
        "distinct = (decoder, bytes) resp. (mode, devices, hostile payload, order)")
ASSUMPTIONS = [
    "a datagram transport may stop delivering once an exception escapes datagram_received (asyncio proactor "
    "does; the fake transport does) — so the per-datagram barrier of ReceiveDelegate is what isolates hosts",
    "hostile hosts announce services at their own addresses (mDNS is unauthenticated: announcing at another "
    "device's address is spoofing, outside the property); scan without identifier",
    "protobuf / plistlib / AEAD below the framers are not modelled: the correspondence runs stub them, the "
    "direct oracle runs the real ones and only requires return-or-ordinary-exception within the budget",
    "HTTP header values are ASCII and Content-Length is digits, '-digits' or not a number (int() accepts more)",
    "RecursionError is an ordinary exception (read_tlv, DMAP _parse, OPACK _unpack recurse per item)",
    "wall-clock budget of a child call: 6 s + 20 ms per item + 0.2 ms per input byte (normal: milliseconds); "
    "CPython's re does no more work than the exhaustive backtracking search bounded in Props/C05Regex",
]
TRUSTED = ["harness/c05.py line-event tracer (sys.settrace) and AST location of loop heads",
           "harness/c12.py fakes and record rendering (reused for the discovery runs)"]

EVENT_BUDGET = 60000          # line events per decode call; valid inputs of the sizes used need < 3000
WATCHDOG_S = 120


class Budget(BaseException):
    """event budget exhausted: the call did not finish (BaseException: `except Exception` cannot eat it)"""


class Hang(BaseException):
    pass


def _on_alarm(_sig, _frame):
    raise Hang()


# ---------------------------------------------------------------------------------------------
# tracing
# ---------------------------------------------------------------------------------------------
def while_line(func, index=0):
    """(code object, absolute line) of the `index`-th `while` statement of `func`."""
    func = inspect.unwrap(getattr(func, "__func__", func))
    src = textwrap.dedent(inspect.getsource(func))
    tree = ast.parse(src)
    loops = [n for n in ast.walk(tree) if isinstance(n, ast.While)]
    loops.sort(key=lambda n: n.lineno)
    if index >= len(loops):
        return func.__code__, -1
    return func.__code__, func.__code__.co_firstlineno + loops[index].lineno - 1


def loop_line(func, index=0):
    """(code object, absolute line) of the `index`-th loop statement (`for` or `while`) of `func`: its head line is
    reached once per iteration and once more when the loop is left through its test"""
    func = inspect.unwrap(getattr(func, "__func__", func))
    tree = ast.parse(textwrap.dedent(inspect.getsource(func)))
    loops = [n for n in ast.walk(tree) if isinstance(n, (ast.While, ast.For))]
    loops.sort(key=lambda n: n.lineno)
    if index >= len(loops):
        return func.__code__, -1
    return func.__code__, func.__code__.co_firstlineno + loops[index].lineno - 1


class Tracer:
    """Counts line events in pyatv code, hits of given (code, line) pairs and calls of given code
    objects; raises Budget past `budget` events."""

    def __init__(self, prefix, lines=(), calls=(), budget=EVENT_BUDGET):
        self.prefix = prefix
        self.lines = {k: i for i, k in enumerate(lines)}
        self.calls = {c: i for i, c in enumerate(calls)}
        self.budget = budget
        self.stuck = 0

    MAX_STUCK = 3     # a decoder that did not finish on that many inputs is not called any more (each such
                      # call burns the whole event budget); what was found is reported

    def run(self, fn):
        if self.stuck >= self.MAX_STUCK:
            return {"status": "skipped", "value": None, "events": 0, "hits": [0] * len(self.lines),
                    "calls": [0] * len(self.calls)}
        events = [0]
        hits = [0] * len(self.lines)
        ncalls = [0] * len(self.calls)
        lines, calls, budget, prefix = self.lines, self.calls, self.budget, self.prefix

        def local(frame, ev, arg):
            if ev == "line":
                events[0] += 1
                if events[0] > budget:
                    raise Budget()
                i = lines.get((frame.f_code, frame.f_lineno))
                if i is not None:
                    hits[i] += 1
            return local

        def glob(frame, ev, arg):
            code = frame.f_code
            i = calls.get(code)
            if i is not None:
                ncalls[i] += 1
            if code.co_filename.startswith(prefix):
                return local
            return None

        out = {"status": None, "value": None}
        sys.settrace(glob)
        try:
            try:
                out["value"] = fn()
                out["status"] = "ok"
            finally:
                sys.settrace(None)
        except Budget:
            out["status"] = "HANG"
        except Hang:
            out["status"] = "HANG-WALLCLOCK"
        except RecursionError:
            out["status"] = "err:RecursionError"
        except Exception as e:  # noqa: an observation
            out["status"] = "err:" + type(e).__name__
            out["exc"] = e
        except BaseException as e:  # noqa: SystemExit, KeyboardInterrupt, … : not ordinary
            out["status"] = "FATAL:" + type(e).__name__
        out["events"] = events[0]
        out["hits"] = hits
        out["calls"] = ncalls
        if not ordinary(out["status"]):
            self.stuck += 1
        return out


def ordinary(status):
    return status == "ok" or status.startswith("err:")


def dns_class(res):
    e = res.get("exc")
    if res["status"] == "ok" or e is None:
        return res["status"]
    if isinstance(e, struct.error):
        return "err:struct"
    if isinstance(e, AssertionError):
        return "err:assert"
    if isinstance(e, UnicodeError):
        return "err:unicode"
    if isinstance(e, ValueError):
        return "err:value"
    return "err:other:" + type(e).__name__


# ---------------------------------------------------------------------------------------------
# decoders: each returns (impl observation string, events, iterations, status) for given bytes
# ---------------------------------------------------------------------------------------------
class Decoders:
    def __init__(self):
        import pyatv
        from pyatv.auth import hap_tlv8
        from pyatv.auth.hap_session import HAPSession
        from pyatv.protocols.airplay import channels
        from pyatv.protocols.companion.connection import CompanionConnection
        from pyatv.protocols.dmap import parser as dmap_parser
        from pyatv.protocols.mrp.connection import MrpConnection
        from pyatv.support import dns, http, opack, variant
        import os
        self.prefix = os.path.dirname(pyatv.__file__)
        self.dns, self.http, self.opack, self.variant = dns, http, opack, variant
        self.tlv8, self.dmap_parser, self.channels = hap_tlv8, dmap_parser, channels
        self.MrpConnection, self.CompanionConnection, self.HAPSession = MrpConnection, CompanionConnection, HAPSession
        T = lambda lines=(), calls=(), budget=EVENT_BUDGET: Tracer(self.prefix, lines, calls, budget)
        self.t_name = T([while_line(dns.parse_domain_name)])
        self.t_dns = T([while_line(dns.parse_domain_name), while_line(dns.parse_txt_dict)],
                       [dns.DnsQuestion.unpack_read.__func__.__code__, dns.DnsResource.unpack_read.__func__.__code__])
        self.t_mrp = T([while_line(MrpConnection.data_received)])
        self.t_companion = T([while_line(CompanionConnection.data_received)])
        self.t_hap = T([while_line(HAPSession.decrypt)])
        self.t_data = T([while_line(channels.DataStreamChannel.handle_received)])
        self.t_event = T([while_line(channels.EventChannel.handle_received)])
        self.t_pb = T([while_line(channels.BaseDataStreamChannel.decode_protobufs)])
        self.t_http = T([while_line(http.HttpConnection.data_received)])
        self.t_server = T([while_line(http.BasicHttpServer.data_received)])
        self.t_var = T()
        from pyatv.protocols.raop import stream_client
        from pyatv.protocols.raop import protocols as raop_protocols
        self.stream_client, self.raop_protocols = stream_client, raop_protocols
        # the largest request a 16-bit count allows walks 65535 sequence numbers (~10 line events each)
        self.t_control = T([loop_line(stream_client.ControlClient._retransmit_lost_packets)], budget=25 * EVENT_BUDGET)
        self.t_timing = T()
        self.t_plain = T()
        self.t_opack = T()
        self.t_flags = T()
        # `_parse` closures: located by name + file at call time
        self.t_tlv = None
        # lookup_tag walks the whole tag table per frame (~130 line events); up to recursion-limit frames
        self.t_dmap = T(calls=[dmap_parser._parse.__code__], budget=10 * EVENT_BUDGET)
        # a loop head that is no longer found in the public function (moved into a helper by a refactoring): the exact
        # round count is then not observable — outcome classes are still compared, work is bounded by the input size
        self.uncounted = set()
        for names, tr in ((("name",), self.t_name), (("dns",), self.t_dns), (("mrp",), self.t_mrp),
                          (("companion",), self.t_companion), (("hap",), self.t_hap), (("data", "data-real-payload"), self.t_data),
                          (("event", "event-negative-length", "event-length-value"), self.t_event),
                          (("pb", "pb-real-protobuf"), self.t_pb), (("http", "http-negative-length", "http-length-value"), self.t_http),
                          (("server", "server-negative-length", "server-length-value"), self.t_server),
                          (("raop-control",), self.t_control)):
            if any(line == -1 for (_, line) in tr.lines):
                self.uncounted.update(names)

    # -- DNS -----------------------------------------------------------------------------------
    def name(self, msg, pos):
        buf = io.BytesIO(msg)

        def fn():
            buf.seek(pos)
            self.dns.parse_domain_name(buf)
            return buf.tell()
        r = self.t_name.run(fn)
        st = dns_class(r)
        obs = "%s %d" % (st, r["value"]) if st == "ok" else st
        return obs + " %d" % r["hits"][0], r, r["hits"][0]

    def dnsmsg(self, msg):
        r = self.t_dns.run(lambda: self.dns.DnsMessage().unpack(msg))
        cost = r["hits"][0] + r["hits"][1] + r["calls"][0] + r["calls"][1]
        return "%s %d" % (dns_class(r), cost), r, cost

    # -- small codecs --------------------------------------------------------------------------
    tlv_stuck = 0

    def tlv(self, data):
        if self.tlv_stuck >= Tracer.MAX_STUCK:
            return "skipped", {"status": "skipped", "events": 0}, 0
        frames = [0]
        prefix = self.prefix
        tlv_file = self.tlv8.__file__

        # `_parse` is a closure created per call: count calls by name within hap_tlv8.py
        def fn():
            return self.tlv8.read_tlv(data)
        events = [0]

        def local(frame, ev, arg):
            if ev == "line":
                events[0] += 1
                if events[0] > EVENT_BUDGET:
                    raise Budget()
            return local

        def glob(frame, ev, arg):
            code = frame.f_code
            if code.co_filename == tlv_file and code.co_name == "_parse":
                frames[0] += 1
            return local if code.co_filename.startswith(prefix) else None
        r = {"status": None}
        sys.settrace(glob)
        try:
            try:
                fn()
                r["status"] = "ok"
            finally:
                sys.settrace(None)
        except Budget:
            r["status"] = "HANG"
        except Hang:
            r["status"] = "HANG-WALLCLOCK"
        except RecursionError:
            r["status"] = "err:RecursionError"
        except Exception as e:  # noqa
            r["status"] = "err:" + type(e).__name__
        except BaseException as e:  # noqa
            r["status"] = "FATAL:" + type(e).__name__
        r["events"] = events[0]
        if not ordinary(r["status"]):
            self.tlv_stuck += 1
        return "%s %d" % (r["status"], frames[0]), r, frames[0]

    def var(self, data):
        r = self.t_var.run(lambda: self.variant.read_variant(data))
        if r["status"] == "ok":
            n, rest = r["value"]
            it = len(data) - len(rest)
            return "ok %d %d %d" % (n, len(rest), it), r, it
        return ("err %d" % len(data)) if r["status"] == "err:ValueError" else r["status"], r, len(data)

    def opack_(self, data):
        r = self.t_opack.run(lambda: self.opack.unpack(data))
        return r["status"], r, len(data)

    def dmap(self, data, lookup):
        r = self.t_dmap.run(lambda: self.dmap_parser.parse(data, lookup))
        return "%s %d" % (r["status"], r["calls"][0]), r, r["calls"][0]

    # -- receive loops -------------------------------------------------------------------------
    def mrp(self, data):
        obj = self.MrpConnection("verif", 0, None)
        obj._transport = _Sink()
        obj.listener = _Sink()
        got = []
        obj._handle_message = lambda d: got.append(len(d))
        r = self.t_mrp.run(lambda: obj.data_received(data))
        return self._loop_obs(r, len(got), len(obj._buffer)), r, r["hits"][0]

    def companion(self, data):
        obj = self.CompanionConnection(None, "verif", 0)
        obj.transport = _Sink()
        obj.set_listener(_Sink())
        r = self.t_companion.run(lambda: obj.data_received(data))
        return self._loop_obs(r, None, len(obj._buffer)), r, r["hits"][0]

    def hap(self, data):
        obj = self.HAPSession()
        got = []

        class Cipher:
            def decrypt(self, block, nonce=None, aad=None):
                got.append(len(block))
                return b"x"
        obj.chacha20 = Cipher()
        r = self.t_hap.run(lambda: obj.decrypt(data))
        return self._loop_obs(r, len(got), len(obj._encrypted_data)), r, r["hits"][0]

    def _data_channel(self, stub_payload):
        ch = self.channels.DataStreamChannel(b"k" * 32, b"k" * 32)
        ch.listener = _Sink()
        ch.send = lambda d: None
        got = []
        if stub_payload:
            ch.decode_payload = lambda payload: got.append(len(payload)) and None
        return ch, got

    def data(self, data, stub_payload=True):
        ch, got = self._data_channel(stub_payload)
        ch.buffer = data
        r = self.t_data.run(ch.handle_received)
        return self._loop_obs(r, len(got) if stub_payload else None, len(ch.buffer)), r, r["hits"][0]

    def event(self, data):
        ch = self.channels.EventChannel(b"k" * 32, b"k" * 32)
        ch.send = lambda d: None
        ch.buffer = data
        r = self.t_event.run(ch.handle_received)
        halted = 0 if r["status"].startswith("HANG") else 1
        return "%d %d %d" % (r["hits"][0], halted, len(ch.buffer)), r, r["hits"][0]

    def server(self, data):
        http = self.http

        class Handler(http.AbstractHttpServerHandler):
            def handle_request(self, request):
                return http.HttpResponse("HTTP", "1.1", 200, "OK", {}, b"")
        obj = http.BasicHttpServer(Handler())
        obj.connection_made(_Sink())
        r = self.t_server.run(lambda: obj.data_received(data))
        halted = 0 if r["status"].startswith("HANG") else 1
        return "%d %d %d" % (r["hits"][0], halted, len(obj._request_buffer)), r, r["hits"][0]

    def httpc(self, data):
        import asyncio
        obj = self.http.HttpConnection()
        obj.transport = _Sink()
        pend = []
        for _ in range(8):
            p = self.http.HttpConnection.PendingRequest(event=asyncio.Event())
            obj._requests.appendleft(p)
            pend.append(p)
        r = self.t_http.run(lambda: obj.data_received(data))
        n = sum(1 for p in pend if p.response is not None)
        return self._loop_obs(r, n, len(obj._buffer)), r, r["hits"][0]

    def pb(self, data, stub=True):
        ch = self.channels
        real = ch.protobuf.ProtocolMessage

        class AnyMessage:                       # protobuf is not modelled: accept every message
            def ParseFromString(self, raw):
                return len(raw)
        if stub:
            ch.protobuf.ProtocolMessage = AnyMessage
        try:
            r = self.t_pb.run(lambda: ch.BaseDataStreamChannel.decode_protobufs(data))
        finally:
            ch.protobuf.ProtocolMessage = real
        halted = 0 if r["status"].startswith("HANG") else 1
        return "%d %d -" % (r["hits"][0], halted), r, r["hits"][0]

    @staticmethod
    def _loop_obs(r, msgs, rest):
        err = "-"
        if r["status"].startswith("err:"):
            err = "malformed"
        elif r["status"] != "ok":
            err = r["status"]
        return "%s %d %s %d" % ("?" if msgs is None else msgs, rest, err, r["hits"][0])

    # -- RAOP UDP datagram handlers ------------------------------------------------------------
    def control(self, data):
        """`ControlClient.datagram_received` (control port of an active stream) with a backlog around the
        sequence-number wrap"""
        from pyatv.protocols.raop.fifo import PacketFifo
        backlog = PacketFifo(1000)
        for seqno in list(range(65500, 65536)) + list(range(0, 40)):
            backlog[seqno] = b"\x80\x60" + seqno.to_bytes(2, "big") + b"audio"
        obj = self.stream_client.ControlClient(None, backlog)
        sent = []

        class Transport:
            def sendto(self, data, addr=None):
                sent.append(bytes(data[2:4]))
        obj.connection_made(Transport())
        r = self.t_control.run(lambda: obj.datagram_received(data, ("10.0.0.9", 6001)))
        iters = max(0, r["hits"][0] - 1) if r["hits"][0] else 0
        st = r["status"] if r["status"] in ("ok", "skipped") or not r["status"].startswith("err:") else "err"
        return "%s %d %d" % (st, iters, len(sent)), r, iters

    def timing(self, data):
        obj = self.raop_protocols.TimingServer()
        obj.connection_made(_Sink())
        r = self.t_timing.run(lambda: obj.datagram_received(data, ("10.0.0.9", 6002)))
        return r["status"], r, 1

    # -- flags ---------------------------------------------------------------------------------
    def _flag_service(self, text):
        from pyatv.const import Protocol
        from pyatv.core import MutableService
        return MutableService("id", Protocol.AirPlay, 7000, {"flags": text})

    def flag_masks(self):
        """Which status-flag bits make `update_service_details` (public seam; the helper that parses the hex string
        is private and may be renamed) report a password / mandatory pairing: probed on the tree under test."""
        if getattr(self, "_masks", None) is None:
            from pyatv.const import PairingRequirement
            from pyatv.protocols.airplay import utils
            pw = mand = 0
            for i in range(64):
                svc = self._flag_service(hex(1 << i))
                utils.update_service_details(svc)
                pw |= (1 << i) if svc.requires_password else 0
                mand |= (1 << i) if svc.pairing == PairingRequirement.Mandatory else 0
            self._masks = (pw, mand)
        return self._masks

    def flags_view(self, answer):
        """the model's `ok +n` / `ok -n` as what is observable at the seam: (password required, pairing mandatory)"""
        import re as _re
        m = _re.fullmatch(r"ok ([+-])(\d+)", answer)
        if not m:
            return answer
        value = int(m.group(2)) * (-1 if m.group(1) == "-" else 1)
        pw, mand = self.flag_masks()
        return "ok %d %d" % (1 if value & pw else 0, 1 if value & mand else 0)

    def flags(self, text):
        from pyatv.const import PairingRequirement
        from pyatv.protocols.airplay import utils
        svc = self._flag_service(text)
        r = self.t_flags.run(lambda: utils.update_service_details(svc))
        if r["status"] == "ok":
            return "ok %d %d" % (1 if svc.requires_password else 0, 1 if svc.pairing == PairingRequirement.Mandatory else 0), r, len(text)
        return "err" if r["status"] == "err:ValueError" else r["status"], r, len(text)


class _Sink:
    """fake transport / listener: accepts everything"""

    def __getattr__(self, name):
        return lambda *a, **k: None


# ---------------------------------------------------------------------------------------------
# bookkeeping shared by all decoder runs
# ---------------------------------------------------------------------------------------------
class Bench:
    """Collects (decoder, input, impl observation, events, iterations) and checks them."""

    def __init__(self, ctx):
        self.ctx = ctx
        self.rows = {}          # decoder -> list of (case, line, impl, res, iters)
        self.calib = {}         # decoder -> (c, c0)

    def add(self, dec, case, line, impl, res, iters, valid=False):
        if res["status"] == "skipped":
            self.ctx.note("skipped-after-hangs:" + dec)
            return
        self.rows.setdefault(dec, []).append((case, line, impl, res, iters, valid))

    COUNT_FIELD = {"name": -1, "dns": -1, "mrp": -1, "companion": -1, "hap": -1, "data": -1, "http": -1, "raop-control": -1,
                   "event": 0, "server": 0, "pb": 0}

    @staticmethod
    def _nbytes(case):
        text = case[0] if isinstance(case, list) else case
        return len(text) // 2 if isinstance(text, str) and text != "-" else 0

    def finish(self, strip=None, uncounted=()):
        ctx = self.ctx
        strip = dict(strip or {})
        for dec in uncounted:
            ctx.note("loop-head-not-located:" + dec)
            if dec in self.rows:
                self.rows[dec] = [(c_, l_, i_, r_, self._nbytes(c_), v_) for c_, l_, i_, r_, _it, v_ in self.rows[dec]]
            if dec in self.COUNT_FIELD:
                k, inner = self.COUNT_FIELD[dec], strip.get(dec, lambda x: x)

                def drop(text, k=k, inner=inner):
                    toks = text.split(" ")
                    if len(toks) > 1:
                        del toks[k]
                    return inner(" ".join(toks)) if k == -1 else " ".join(toks)
                strip[dec] = drop
        for dec, rows in self.rows.items():
            # calibration on valid inputs (status ok), else on all terminating ones
            base = [r for r in rows if r[5] and r[3]["status"] == "ok"] or [r for r in rows if ordinary(r[3]["status"])]
            ratio = max((r[3]["events"] / (r[4] + 1) for r in base), default=1.0)
            c, c0 = 3 * ratio + 10, 60
            self.calib[dec] = round(c, 1)
            lines = [r[1] for r in rows if r[1] is not None]
            answers = iter(ctx.lean(lines) if lines else [])
            for case, line, impl, res, iters, valid in rows:
                st = res["status"]
                ctx.note("decoder:" + dec)
                ctx.note("%s:%s" % (dec, st if not st.startswith("err:") else "raises"))
                ctx.case([dec, case], st != "ok" or iters > 1)
                if line is not None:
                    model = next(answers)
                    a, b = (strip[dec](impl), strip[dec](model)) if strip and dec in strip else (impl, model)
                    if a != b:
                        ctx.disagree({"decoder": dec, "input": case}, impl, model, where=dec)
                    ctx.validated()
                # direct oracle
                if not ordinary(st):
                    ctx.fail("%s:does-not-finish" % dec, {"decoder": dec, "input": case}, st,
                             "returns or raises an ordinary exception within %d line events" % EVENT_BUDGET,
                             "decoder did not finish (hang) or raised a non-ordinary exception")
                elif res["events"] > c * (iters + 1) + c0:
                    ctx.fail("%s:more-work-than-bound" % dec, {"decoder": dec, "input": case},
                             "%d events for %d iterations" % (res["events"], iters),
                             "events <= %.1f * (iterations + 1) + %d" % (c, c0),
                             "line events not bounded by the calibrated constant times the loop count")
        ctx.notes["calibration_events_per_iteration"] = dict(self.calib)
        self.rows = {}


def hx(b):
    return bytes(b).hex() or "-"


def words(alphabet, maxlen, minlen=0):
    for n in range(minlen, maxlen + 1):
        for t in itertools.product(alphabet, repeat=n):
            yield bytes(t)


# ---------------------------------------------------------------------------------------------
# generators per decoder
# ---------------------------------------------------------------------------------------------
def valid_dns_messages(rng, k):
    from harness import c12
    from pyatv.support import dns
    out = []
    for i in range(k):
        dev = c12.gen_device(rng.fork("dev", i), i % 4, allow_noid=False)
        recs = []
        for s in dev["services"][:2]:
            for r in c12.svc_records(dev, s):
                if r not in recs:
                    recs.append(r)
        q = [dns.DnsQuestion("_airplay._tcp.local", dns.QueryType.PTR, 0x8001)] if i % 2 else []
        out.append(c12.pack_compressed(i, q, recs) if i % 3 else c12.pack_repo(dns, i, q, recs))
    return out


def mutate(rng, data, specials):
    """structure-aware byte mutations: lengths, counts, pointers, truncation, insertion"""
    b = bytearray(data)
    for _ in range(rng.choice([1, 1, 1, 2, 3])):
        kind = rng.randrange(7)
        if not b:
            b += bytes([rng.choice(specials)])
            continue
        i = rng.randrange(len(b))
        if kind == 0:
            b[i] = rng.choice(specials)
        elif kind == 1:
            del b[i:]
        elif kind == 2:                                     # pointer to itself / forward / back / cyclic
            target = rng.choice([i, i + 2, max(0, i - 2), min(len(b), i + 7), 12, 0]) & 0x3FFF
            b[i:i + 2] = bytes([0xC0 | (target >> 8), target & 0xFF])
        elif kind == 3 and len(b) >= 12:                    # header counts
            j = rng.choice([4, 6, 8, 10])
            b[j:j + 2] = rng.choice([b"\x00\x00", b"\x00\x01", b"\xff\xff", b"\x00\x07"])
        elif kind == 4:
            b[i:i] = bytes([rng.choice(specials)])
        elif kind == 5:
            b[i] = (b[i] + rng.choice([1, 255, 128])) % 256
        else:
            del b[i:i + rng.randint(1, 4)]
    return bytes(b)


def run_dns(ctx, D, bench):
    T = ctx.thorough
    al = [0x00, 0x01, 0x02, 0x40, 0xC0, 0x61, 0xC3]
    for w in words(al, 5 if T else 4):
        for pos in range(max(1, len(w))):
            impl, r, it = D.name(w, pos)
            bench.add("name", [hx(w), pos], "name %s %d" % (hx(w), pos), impl, r, it)
    # messages: header (counts) + exhaustive body
    body_al = [0x00, 0x01, 0xC0, 0x0C, 0x10, 0x21, 0x61]
    heads = [(1, 0, 0, 0), (0, 1, 0, 0), (1, 0, 0, 2), (0xFFFF, 0xFFFF, 0xFFFF, 0xFFFF)]
    for qd, an, ns, ar in heads if T else heads[:1] + heads[3:]:
        head = struct.pack(">6H", 0, 0x8400, qd, an, ns, ar)
        for w in words(body_al, 5 if T else 4):
            impl, r, it = D.dnsmsg(head + w)
            bench.add("dns", hx(head + w), "dns " + hx(head + w), impl, r, it)
    # a record with each rdata type in front of an exhaustive rdata
    for qtype in (1, 12, 16, 33, 47):
        for w in words([0x00, 0x01, 0x03, 0xC0, 0x0C, 0x3D, 0x61], 4 if T else 3):
            for rdlen in sorted({0, len(w), len(w) + 1, 4}):
                msg = struct.pack(">6H", 0, 0x8400, 0, 1, 0, 0) + b"\x01a\x00" + struct.pack(">2HIH", qtype, 1, 120, rdlen) + w
                impl, r, it = D.dnsmsg(msg)
                bench.add("dns", hx(msg), "dns " + hx(msg), impl, r, it)
    # valid messages and their mutations
    rng = ctx.rng.fork("dns-mut")
    valids = valid_dns_messages(rng, ctx.scale(6, 24))
    specials = [0, 1, 2, 0x0C, 0x3F, 0x40, 0x80, 0xC0, 0xC1, 0xFF, 0x10, 0x21]
    for m in valids:
        impl, r, it = D.dnsmsg(m)
        bench.add("dns", hx(m), "dns " + hx(m), impl, r, it, valid=True)
        for _ in range(ctx.scale(40, 250)):
            x = mutate(rng, m, specials)
            if b"xn--" in x:
                continue                                  # IDNA labels are a parameter of the C04 model
            impl, r, it = D.dnsmsg(x)
            bench.add("dns", hx(x), "dns " + hx(x), impl, r, it)
            ctx.note("dns-mutation")
    # pointer structures: chains and cycles of every shape over up to 4 pointer slots
    n = 4 if T else 3
    for targets in itertools.product(range(n + 1), repeat=n):
        body = b"".join(bytes([0xC0, 12 + 2 * t]) if t < n else b"\x00\x00" for t in targets)
        msg = struct.pack(">6H", 0, 0, 1, 0, 0, 0) + body + b"\x00\x01\x00\x01"
        impl, r, it = D.dnsmsg(msg)
        bench.add("dns", hx(msg), "dns " + hx(msg), impl, r, it)
        for p in range(n):
            impl, r, it = D.name(msg, 12 + 2 * p)
            bench.add("name", [hx(msg), 12 + 2 * p], "name %s %d" % (hx(msg), 12 + 2 * p), impl, r, it)
        ctx.note("dns-pointer-graph")
    # label + pointer cycles (labels re-read on every round in the pinned code)
    for lab in (1, 2):
        for back in range(0, 6):
            body = bytes([lab]) + b"a" * lab + bytes([0xC0, 12 + back])
            msg = struct.pack(">6H", 0, 0, 1, 0, 0, 0) + body + b"\x00\x01\x00\x01"
            impl, r, it = D.dnsmsg(msg)
            bench.add("dns", hx(msg), "dns " + hx(msg), impl, r, it)


def run_small(ctx, D, bench):
    T = ctx.thorough
    for w in words([0, 1, 2, 255], 7 if T else 6):
        impl, r, it = D.tlv(w)
        bench.add("tlv", hx(w), "tlv " + hx(w), impl, r, it)
    for w in words([0, 1, 0x7F, 0x80, 0xFF], 6 if T else 5):
        impl, r, it = D.var(w)
        bench.add("var", hx(w), "var " + hx(w), impl, r, it)
    # long TLV: recursion depth = number of items (documented: RecursionError is ordinary)
    for items in (10, 400, 3000):
        w = b"\x01\x00" * items
        impl, r, it = D.tlv(w)
        bench.add("tlv-deep", "0100*%d" % items, None, impl, r, it, valid=(items == 10))
    rng = ctx.rng.fork("tlv-mut")
    from pyatv.auth import hap_tlv8
    for i in range(ctx.scale(40, 300)):
        d = {rng.randrange(0, 8): rng.bytes_(rng.choice([0, 1, 3, 255, 256, 300])) for _ in range(rng.randint(1, 4))}
        v = hap_tlv8.write_tlv(d)
        impl, r, it = D.tlv(v)
        bench.add("tlv", hx(v), "tlv " + hx(v), impl, r, it, valid=True)
        x = mutate(rng, v, [0, 1, 2, 254, 255])
        impl, r, it = D.tlv(x)
        bench.add("tlv", hx(x), "tlv " + hx(x), impl, r, it)


OPACK_AL = [0x01, 0x03, 0x08, 0x30, 0x41, 0x61, 0x71, 0xA0, 0xC1, 0xD1, 0xDF, 0xE1, 0xEF]


def opack_class(impl_status):
    m = {"err:IndexError": "err:index", "err:TypeError": "err:type", "err:ValueError": "err:value",
         "err:error": "err:struct", "err:UnicodeDecodeError": "err:value", "err:OverflowError": "err:value"}
    return m.get(impl_status, impl_status)


def run_opack(ctx, D, bench):
    """Outcome class against the C04 OPACK driver; oracle as for every decoder."""
    T = ctx.thorough
    rows = []
    for w in words(OPACK_AL, 4 if T else 3):
        rows.append(w)
    rng = ctx.rng.fork("opack-mut")
    from pyatv.support import opack

    def value(depth):
        k = rng.randrange(8 if depth < 4 else 5)
        if k == 0:
            return rng.randint(-1, 300)
        if k == 1:
            return "s" * rng.choice([0, 1, 32, 33])
        if k == 2:
            return rng.bytes_(rng.choice([0, 1, 32, 33]))
        if k == 3:
            return rng.choice([None, True, False, 1.5])
        if k == 4:
            return "rep"
        if k in (5, 6):
            return [value(depth + 1) for _ in range(rng.choice([0, 1, 2, 15, 16]) if depth < 2 else rng.randint(0, 2))]
        return {"k%d" % i: value(depth + 1) for i in range(rng.choice([0, 1, 2, 15]) if depth < 2 else 1)}
    valids = []
    for i in range(ctx.scale(30, 200)):
        try:
            v = opack.pack(value(0))
        except Exception:  # noqa
            continue
        valids.append(v)
        rows.append(v)
        rows.append(mutate(rng, v, OPACK_AL + [0xA1, 0xC2, 0x91, 0x92]))
    # nesting depth: one Python frame per level
    for depth in (5, 200, 5000):
        rows.append(b"\xD1" * depth + b"\x01")
    answers = ctx.lean(["unpack " + hx(w) for w in rows], driver="Driver/C04Opack.lean")
    for w, ans in zip(rows, answers):
        impl, r, it = D.opack_(w)
        if r["status"] == "skipped":
            continue
        deep = len(w) > 150 and w[:100] == b"\xD1" * 100
        bench.add("opack", hx(w), None, impl, r, it, valid=w in valids)
        model = ans.split(" ")[0]
        if not deep and r["status"] != "err:RecursionError":
            if opack_class(impl) != model and not (impl.startswith("err:") and model.startswith("err:")):
                ctx.disagree({"decoder": "opack", "input": hx(w)}, impl, ans, where="opack outcome class")
            ctx.validated()


def run_dmap(ctx, D, bench):
    """DMAP: token-exhaustive tags (container / leaf kinds / unknown) x declared lengths."""
    T = ctx.thorough
    from pyatv.protocols.dmap import parser as dmap_parser, tag_definitions
    lookup = tag_definitions.lookup_tag
    # kinds for the model table, from the real lookup
    names = [b"mlcl", b"mlit", b"minm", b"miid", b"aply", b"zzzz", b"caps"]

    def kind(name):
        try:
            t = lookup(name.decode("utf-8")).type
        except Exception:  # noqa
            return None
        if t == "container":
            return "c"
        return {"read_uint": "u", "read_bool": "b", "read_str": "s", "read_bytes": "r", "read_ignore": "i",
                "_read_unknown": "i", "read_bplist": None}.get(getattr(t, "__name__", ""), None)
    usable = [n for n in names if kind(n)]
    default = kind(b"")                                  # names read past the end of the data are b""
    table = "dmaptable %s %s" % (default or "r", " ".join("%s=%s" % (n.hex(), kind(n)) for n in usable))
    fuel = 150
    lens = [0, 1, 8, 9, 17, 255]
    tags = [(n, l) for n in usable[:4] for l in lens]
    bufs = []
    for k in range(1, (3 if T else 2) + 1):
        for seq in itertools.product(tags, repeat=k):
            for tail in (b"", b"\x07", b"abcdefghi"):
                bufs.append(b"".join(n + struct.pack(">I", l) for n, l in seq) + tail)
    rng = ctx.rng.fork("dmap")
    if len(bufs) > ctx.scale(1500, 12000):
        bufs = rng.sample(bufs, ctx.scale(1500, 12000))
    # declared lengths far beyond the data: the walk over the declared region is ended by Python's
    # recursion limit (about 1000 frames x ~130 line events each: few of these, they are slow to trace)
    for n in usable[:4]:
        for l in (0x2000, 0xFFFFFFFF):
            bufs.append(n + struct.pack(">I", l))
            bufs.append(usable[0] + struct.pack(">I", 16) + n + struct.pack(">I", l) + b"\x01")
    from pyatv.protocols.dmap import tags as dtags
    valids = []
    for i in range(ctx.scale(20, 100)):
        inner = b"".join(dtags.string_tag("minm", "n%d" % j) + dtags.uint32_tag("miid", j) for j in range(rng.randint(0, 3)))
        v = dtags.container_tag("mlcl", dtags.container_tag("mlit", inner) * rng.randint(1, 3))
        valids.append(v)
        bufs.append(v)
        bufs.append(mutate(rng, v, [0, 1, 8, 0xFF, 0x6D]))
    old = sys.getrecursionlimit()
    answers = ctx.lean([table] + ["dmap %s %d" % (hx(b), fuel) for b in bufs])
    if answers[0] != "ok":
        ctx.disagree({"decoder": "dmap"}, table, answers[0], where="dmap table")
        return
    for b, ans in zip(bufs, answers[1:]):
        impl, r, it = D.dmap(b, lookup)
        bench.add("dmap", hx(b), None, impl, r, it, valid=b in valids)
        if r["status"] == "skipped":
            continue
        parts = ans.split(" ")
        mstatus, mframes, declok = parts[0], int(parts[1]), parts[2] == "1"
        st = r["status"]
        ctx.note("dmap-declok:%d" % declok)
        # model fuel 150 < Python's limit: compare when the model did not run out of it
        if mstatus != "err:RecursionError" and st != "err:RecursionError":
            a = (st if st in ("ok", "err:UnicodeDecodeError") else "err:other", it)
            m = (mstatus, mframes)
            if a[0] != "err:other" and a != m:
                ctx.disagree({"decoder": "dmap", "input": hx(b)}, "%s %d" % a, ans, where="dmap outcome/frames")
            ctx.validated()
            if declok and 4 * it > len(b) + 4:
                ctx.fail("dmap:frames-exceed-bound", {"decoder": "dmap", "input": hx(b)}, it,
                         "<= len/4 + 1 = %d" % (len(b) // 4 + 1), "more _parse frames than the proved bound")
    sys.setrecursionlimit(old)


def http_tokens():
    return ["GET / HTTP/1.1", "HTTP/1.1 200 OK", "garbage", "Content-Length: 0", "Content-Length: 3",
            "Content-Length: x", "Content-Length: -1", "CSeq: 1", "nocolon", "\r\n", "\r\n\r\n", "abc", ""]


def run_loops(ctx, D, bench):
    T = ctx.thorough
    for w in words([0, 1, 2, 0x80, 0xFF], 6 if T else 5):
        impl, r, it = D.mrp(w)
        bench.add("mrp", hx(w), "drain mrp " + hx(w), impl, r, it)
    for w in words([0, 1, 2, 5, 0xFF], 7 if T else 6):
        impl, r, it = D.companion(w)
        bench.add("companion", hx(w), "drain companion " + hx(w), impl, r, it)
    for w in words([0, 1, 2, 8, 0x80], 6 if T else 5):
        impl, r, it = D.pb(w)
        bench.add("pb", hx(w), "loop pb " + hx(w), impl, r, it)
        implr, rr, itr = D.pb(w, stub=False)                            # the real protobuf parser on garbage
        bench.add("pb-real-protobuf", hx(w), None, implr, rr, itr)
    # HAP blocks: declared length x actual payload, up to 3 blocks + tail
    blocks = [(d, a) for d in (0, 1, 2, 300) for a in (0, 1, 16, 17, 18, 19)]
    for k in range(1, (3 if T else 2) + 1):
        for seq in itertools.product(blocks, repeat=k):
            buf = b"".join(struct.pack("<H", d) + b"\x05" * a for d, a in seq)
            impl, r, it = D.hap(buf)
            bench.add("hap", hx(buf), "drain hap " + hx(buf), impl, r, it)
    # data stream: header sizes 0..40 x buffer lengths, one or two frames
    from pyatv.protocols.airplay.channels import DataHeader
    sizes = list(range(0, 41)) + [64, 0xFFFFFFFF]
    for s1 in sizes:
        for total in (31, 32, 33, 40, 41, 72):
            h1 = DataHeader.encode(s1, b"sync" + 8 * b"\0", b"comm", 1, 0)
            for s2 in ((0, 5, 32, 33) if T else (0, 32)):
                h2 = DataHeader.encode(s2, b"rply" + 8 * b"\0", b"\0\0\0\0", 2, 0)
                buf = (h1 + b"\x07" * max(0, min(s1, 200) - 32) + h2)[:total] if total != 72 else h1 + b"\x07" * max(0, min(s1, 200) - 32) + h2
                impl, r, it = D.data(buf)
                bench.add("data", hx(buf), "drain data " + hx(buf), impl, r, it)
                if s1 >= 32:
                    implr, rr, itr = D.data(buf, stub_payload=False)      # real plist decoding on garbage payloads
                    bench.add("data-real-payload", hx(buf), None, implr, rr, itr)
    # HTTP: token sequences
    toks = http_tokens()
    k = 4 if T else 3
    seqs = list(itertools.product(range(len(toks)), repeat=k))
    rng = ctx.rng.fork("http")
    if len(seqs) > ctx.scale(1500, 12000):
        seqs = rng.sample(seqs, ctx.scale(1500, 12000))
    for seq in seqs:
        parts = [toks[i] for i in seq]
        buf = "".join(p if p.startswith("\r") or p in ("abc", "") else p + "\r\n" for p in parts).encode()
        # int("-1") is accepted by the code (slices from the end); the model's Content-Length is a natural
        modelled = b"Content-Length: -1" not in buf
        for dec, fn, line in (("event", D.event, "loop event "), ("server", D.server, "loop server "), ("http", D.httpc, "drain http ")):
            impl, r, it = fn(buf)
            bench.add(dec if modelled else dec + "-negative-length", hx(buf), line + hx(buf) if modelled else None, impl, r, it)
    # the witnesses of D3a / D3b on the repaired code
    w = b"garbage\r\n\r\n"
    for dec, fn, line in (("event", D.event, "loop event "), ("server", D.server, "loop server ")):
        impl, r, it = fn(w)
        bench.add(dec, hx(w), line + hx(w), impl, r, it)


def http_value_messages(kind):
    """Valid HTTP/RTSP messages whose header VALUES are hostile: every Content-Length from minus (message size + 8)
    to +6 (so also minus the size of the header block, where an offset computation lands on 0) and huge /
    non-numeric ones, with and without body and with a second message behind."""
    first = {"request": ["POST /command RTSP/1.0", "GET / HTTP/1.1"], "response": ["RTSP/1.0 200 OK"]}[kind]
    out = []
    for line in first:
        for extra in ("", "CSeq: 1\r\n"):
            for body in (b"", b"abc", b"abcdef" + (line + "\r\n\r\n").encode()):
                size = len(line) + 2 + len("Content-Length: -999\r\n") + len(extra) + 2 + len(body)
                values = [str(v) for v in range(-(size + 8), 7)] + ["-100000", "-2147483648", "-%d" % 2 ** 64, "1000000",
                                                                  "%d" % 2 ** 63, "x", "", "1e3", "0x10", "-", "--1", "-0"]
                for v in values:
                    head = "%s\r\n%sContent-Length: %s\r\n\r\n" % (line, extra, v) if extra == "" or len(v) % 2 else \
                        "%s\r\nContent-Length: %s\r\n%s\r\n" % (line, v, extra)
                    out.append((v, head.encode() + body))
    return out


def run_http_values(ctx, D, bench):
    """Every HTTP receive loop of the library on header values of otherwise valid messages."""
    import re as _re
    for kind, targets in (("request", (("event", D.event, "loop event "), ("server", D.server, "loop server "))),
                          ("response", (("http", D.httpc, "drain http "),))):
        msgs = http_value_messages(kind)
        if not ctx.thorough:
            msgs = [m for i, m in enumerate(msgs) if i % 2 == 0 or not _re.fullmatch(r"-?\d+", m[0]) or len(m[0]) > 4]
        for v, buf in msgs:
            # the model's Content-Length is a natural number: signed / non-decimal spellings int() accepts are oracle-only
            modelled = bool(_re.fullmatch(r"\d+|x|1e3|0x10|", v))
            for dec, fn, line in targets:
                impl, r, it = fn(buf)
                bench.add(dec if modelled else dec + "-length-value", hx(buf), line + hx(buf) if modelled else None, impl, r, it)
                ctx.note("http-length:%s" % ("negative" if v.startswith("-") else "other"))


def run_raop_datagrams(ctx, D, bench):
    """The UDP handlers of an audio stream: control port (retransmit requests: every type byte class x sequence numbers
    around the 2^16 wrap x packet counts incl. the largest), timing port."""
    types = [0x55, 0xD5, 0x54, 0xD6, 0x00]
    seqnos = [0, 1, 2, 39, 40, 100, 32767, 32768, 65499, 65500, 65530, 65534, 65535]
    counts = [0, 1, 2, 5, 6, 10, 36, 37, 100, 1000]
    lines, rows = [], []
    for t in types:
        for s_ in seqnos:
            for c in counts:
                if t not in (0x55, 0xD5) and (s_ not in (0, 65535) or c not in (0, 10)):
                    continue
                rows.append(struct.pack(">BBHHH", 0x80, t, 7, s_, c))
    for s_, c in ((65436, 65535), (0, 65535)) + (((65535, 65535), (1, 65534)) if ctx.thorough else ()):
        rows.append(struct.pack(">BBHHH", 0x80, 0xD5, 7, s_, c))
    full = struct.pack(">BBHHH", 0x80, 0xD5, 7, 65530, 10)
    rows += [full[:k] for k in range(8)] + [full + b"\x00", full + full]
    for data in rows:
        impl, r, it = D.control(data)
        bench.add("raop-control", hx(data), "control " + hx(data), " ".join(impl.split(" ")[:2]), r, it)
        if r["status"] == "ok" and len(data) == 8 and data[1] & 0x7F == 0x55 and "raop-control" not in D.uncounted:
            want = struct.unpack(">H", data[6:8])[0]
            if it != want:
                ctx.fail("raop-control:wrong-number-of-rounds", {"decoder": "raop-control", "input": hx(data)}, it,
                         "%d rounds (the request's packet count)" % want, "retransmit loop does not make one round per lost packet")
    rng = ctx.rng.fork("timing")
    for n in list(range(0, 34)) + [40, 64]:
        data = rng.bytes_(n)
        impl, r, it = D.timing(data)
        bench.add("raop-timing", hx(data), None, impl, r, it)


def run_flags(ctx, D, bench):
    al = list(b"0x1fz _-+")
    for w in words(al, 5 if ctx.thorough else 4, 1):
        impl, r, it = D.flags(w.decode())
        bench.add("flags", hx(w), "flags " + hx(w), impl, r, it)
    # companion: the same parse inside service_info
    from pyatv.core import MutableService
    from pyatv.const import Protocol
    from pyatv.protocols import companion
    for text in ("0x36782", "zz", "", "0x", "-0x4", " 0x04 "):
        svc = MutableService("id", Protocol.Companion, 1, {"rpfl": text})

        def call():
            try:
                companion.service_info(svc, None, {}).send(None)
            except StopIteration:
                pass
        r = D.t_plain.run(call)
        bench.add("flags-companion", text, None, r["status"], r, len(text))


def run_pinned_witnesses(ctx):
    """The Lean counterexamples of the pinned loops, on the model (still running after much fuel) and the
    same inputs on the real, repaired code (they finish: checked in the decoder runs above)."""
    lines = ["pinned name 000000000001000000000000c00c00010001 5000",
             "pinned data " + "00" * 32 + " 5000",
             "pinned event " + b"garbage\r\n\r\n".hex() + " 5000"]
    for line, ans in zip(lines, ctx.lean(lines)):
        if ans != "running":
            ctx.disagree({"witness": line}, "running (pinned loop never leaves)", ans, where="pinned witness")
        ctx.validated()


# ---------------------------------------------------------------------------------------------
# child process: calls whose time can be spent inside one C-level call (regex, int(), codecs) are made in a
# child with a wall-clock budget; a child that does not answer in time is killed — that is the observation
# ---------------------------------------------------------------------------------------------
CHILD_BASE_S = 6.0            # a batch normally takes milliseconds; generous because the machine is shared
CHILD_PER_ITEM_S = 0.02
CHILD_PER_BYTE_S = 0.0002     # budget grows linearly with the input size


class Child:
    """`python -m harness.c05 --child`: one JSON task per line in, one JSON answer per line out."""

    def __init__(self):
        self.p = None
        self.buf = b""
        self.kills = 0

    def start(self):
        import os
        import subprocess
        from harness.core import REPO, VERIF
        self.buf = b""
        self.p = subprocess.Popen([sys.executable, "-u", "-m", "harness.c05", "--child"], cwd=VERIF,
                                  env=dict(os.environ, VERIF_REPO=REPO), stdin=subprocess.PIPE,
                                  stdout=subprocess.PIPE, stderr=subprocess.DEVNULL)
        if self._readline(60) != b"ready":
            raise RuntimeError("C05 child process did not start")

    def _readline(self, timeout):
        import os
        import select
        import time
        end = time.monotonic() + timeout
        fd = self.p.stdout.fileno()
        while b"\n" not in self.buf:
            left = end - time.monotonic()
            if left <= 0:
                return None
            r, _, _ = select.select([fd], [], [], left)
            if not r:
                return None
            chunk = os.read(fd, 1 << 16)
            if not chunk:
                return None
            self.buf += chunk
        line, self.buf = self.buf.split(b"\n", 1)
        return line

    def call(self, task, budget):
        if self.p is None or self.p.poll() is not None:
            self.start()
        try:
            self.p.stdin.write((json.dumps(task) + "\n").encode())
            self.p.stdin.flush()
        except OSError:
            self.close()
            return {"status": "CHILD-DIED"}
        line = self._readline(budget)
        if line is None:
            died = self.p.poll() is not None
            self.close()
            if died:
                return {"status": "CHILD-DIED"}
            self.kills += 1
            return {"status": "KILLED", "budget_s": round(budget, 2)}
        return json.loads(line)

    def close(self):
        if self.p is not None:
            try:
                self.p.kill()
                self.p.wait(10)
            except Exception:  # noqa
                pass
        self.p = None


def budget_for(items, nbytes):
    return CHILD_BASE_S + CHILD_PER_ITEM_S * items + CHILD_PER_BYTE_S * nbytes


# -- what the child does ------------------------------------------------------------------------
SERVICE_TYPES = {
    "pyatv.protocols.airplay": "_airplay._tcp.local", "pyatv.protocols.raop": "_raop._tcp.local",
    "pyatv.protocols.companion": "_companion-link._tcp.local", "pyatv.protocols.mrp": "_mediaremotetv._tcp.local",
    "pyatv.protocols.dmap": "_touch-able._tcp.local",
}
BASE_PROPS = {
    "_airplay._tcp.local": {"deviceid": "AA:BB:CC:00:00:09", "features": "0x5A7FFFF7,0x1E", "model": "AppleTV6,2"},
    "_raop._tcp.local": {"am": "AppleTV6,2", "tp": "UDP"},
    "_companion-link._tcp.local": {"rpMRtID": "CID-9", "rpFl": "0x36782", "rpMd": "AppleTV6,2"},
    "_mediaremotetv._tcp.local": {"Name": "Dev9", "UniqueIdentifier": "MRP-9", "SystemBuildVersion": "17K449"},
    "_touch-able._tcp.local": {"CtlN": "Dev9"},
}
INSTANCE = {"_raop._tcp.local": "AABBCC000009@Dev9", "_touch-able._tcp.local": "DMAP0009_touch"}


_SCANNER = []


def child_svc(stype, props):
    """One announced service with the given TXT properties through the real per-service pipeline of discovery:
    handler (`handle_response`), device_info extractors and `service_info` (`discover`), `get_unique_id`."""
    from ipaddress import IPv4Address
    from harness import c12
    from pyatv.core import mdns
    from pyatv.helpers import get_unique_id
    from pyatv.support.collections import CaseInsensitiveDict
    if not _SCANNER:
        scanner = c12.make_scanner(None)

        async def process(timeout):
            return None
        scanner.process = process
        _SCANNER.append(scanner)
    scanner = _SCANNER[0]
    scanner._found_devices.clear()           # a fresh scan: nothing found yet
    scanner._properties.clear()
    cprops = CaseInsensitiveDict(props)
    service = mdns.Service(stype, INSTANCE.get(stype, "Dev9"), IPv4Address("10.0.0.9"), 7000, cprops)
    scanner.handle_response(mdns.Response([service], False, cprops.get("model")))
    coro = scanner.discover(0)               # no awaits that suspend: `process` is a no-op, service_info are plain
    try:
        coro.send(None)
        coro.close()
        raise RuntimeError("discover() suspended")
    except StopIteration as done:
        devices = done.value
    get_unique_id(stype, service.name, cprops)
    return len(devices)


def child_scan(task):
    desc, good = task["desc"], task["good"]
    _, _, ref, _ = real_scan(good)
    case, order, res, shown = real_scan(desc)
    addrs = set(task["good_addrs"])
    out = {"status": "ok", "error": res["error"], "want": repr(snapshot(ref)), "got": repr(snapshot(res, only=addrs)),
           "want_empty": not snapshot(ref) or isinstance(snapshot(ref), str),
           "returned": [str(c.address) for c in res["configs"]], "snap": shown["snap"], "line": None}
    if not res["error"] and not any(d.get("content") for d in desc["dgrams"]):
        from harness import c12
        mode = desc["mode"]
        mdesc = dict(desc, dgrams=[d for d in desc["dgrams"] if not (mode == "u" and "raw" in d)])
        mcase = case if len(mdesc["dgrams"]) == len(desc["dgrams"]) else c12.Case(mdesc)
        out["line"] = mcase.line(list(range(len(mdesc["dgrams"]))))
    return out


def child_fn(name, text):
    from pyatv.protocols.airplay import utils
    from pyatv.support import device_info, http
    if name == "flags":
        from pyatv.const import Protocol
        from pyatv.core import MutableService
        return utils.update_service_details(MutableService("id", Protocol.AirPlay, 7000, {"flags": text}))
    if name == "features":
        return int(utils.parse_features(text))
    if name == "version":
        return device_info.lookup_version(text)
    if name == "os":
        return device_info.lookup_os(text).name
    if name == "http-request":
        return http.parse_request(text.encode("utf-8", "surrogateescape"))[0] is not None
    if name == "http-response":
        return http.parse_response(text.encode("utf-8", "surrogateescape"))[0] is not None
    if name == "dns-label":
        from pyatv.support import dns
        raw = text.encode("utf-8", "surrogateescape")[:63]
        return dns.parse_domain_name(io.BytesIO(bytes([len(raw)]) + raw + b"\x00"))
    raise KeyError(name)


def child_main():
    import logging
    from harness.core import use_repo
    use_repo()
    logging.disable(logging.CRITICAL)
    import pyatv  # noqa: imported before answering "ready"
    from harness import c12  # noqa
    out = sys.stdout
    out.write("ready\n")
    out.flush()
    for line in sys.stdin:
        task = json.loads(line)
        res = {"status": "ok", "items": []}
        try:
            if task["op"] == "svc":
                for props in task["props"]:
                    try:
                        res["items"].append("ok %d" % child_svc(task["type"], props))
                    except RecursionError:
                        res["items"].append("err:RecursionError")
                    except Exception as e:  # noqa: observation
                        res["items"].append("err:" + type(e).__name__)
            elif task["op"] == "fn":
                for text in task["texts"]:
                    try:
                        child_fn(task["fn"], text)
                        res["items"].append("ok")
                    except Exception as e:  # noqa: observation
                        res["items"].append("err:" + type(e).__name__)
            elif task["op"] == "scan":
                logging.disable(logging.CRITICAL)
                res = child_scan(task)
            else:
                res = {"status": "bad-op"}
        except BaseException as e:  # noqa
            res = {"status": "FATAL:" + type(e).__name__, "detail": str(e)[:300]}
        out.write(json.dumps(res) + "\n")
        out.flush()


# -- adversarial string content -----------------------------------------------------------------
def hostile_strings(ctx):
    """near-matches of every regular expression the code applies to network strings (derived from the patterns
    extracted from the tree under test) + long digit runs / repeated separators for the numeric parsers"""
    from tools.gen import c05 as gen
    T = ctx.thorough
    pumps = ((1, 1), (40, 1), (1, 40), (6, 6), (2, 20), (60, 2)) if T else ((40, 1), (1, 40), (6, 6))
    out, seen = [], set()
    sites = gen.sites()
    for _, _, _, pat in sites:
        for s_ in gen.attack_strings(pat, pumps=pumps):
            if not T and not (s_.endswith("x") or s_[-1:].isalnum() or s_.endswith("!")):
                continue
            if s_ not in seen:
                seen.add(s_)
                out.append(s_)
    generic = ["1" * 60, "1" * 240, "1," * 100, "," * 120, "0x" + "f" * 200, "0x" + "f" * 8 + ",0x" * 60, "0x" * 100,
               " " * 200, "-" * 120, "a" * 240, "A1" * 100, "=" * 50, "true" * 50, "Mac" * 60, "1.2." * 50, "é" * 100,
               "0" * 4000, "9" * 5000, "1e" * 100, "%s" * 50, "\\d+" * 20, "(" * 100, "", "0", "x"]
    for g in generic:
        if g not in seen:
            seen.add(g)
            out.append(g)
    ctx.notes["regex_sites"] = sorted({"%s.%s: %s" % (m.replace("pyatv.", ""), f, p) for m, f, _, p in sites})
    return out


def run_strings(ctx, child):
    """Every TXT property the protocol modules interpret x every hostile string, through the real per-service
    discovery pipeline, and the string-level parsers directly — in the child, under a wall-clock budget."""
    from tools.gen import c05 as gen
    strings = hostile_strings(ctx)
    keys = gen.txt_keys()
    ctx.notes["txt_keys"] = {k.replace("pyatv.protocols.", ""): v for k, v in keys.items()}
    stuck = 0
    culprits = []          # (protocol module, key, text) on which the per-service pipeline did not return

    def judge(sig_base, case_of, answers, texts, res, required):
        nonlocal stuck
        if res["status"] == "KILLED":
            stuck += 1
            # find the offending string: bisect with single-item calls (at most a few, each may be killed)
            culprit = None
            for t in texts[: 400]:
                r1 = single(t)
                if r1["status"] != "ok":
                    culprit = t
                    break
            if culprit is not None:
                culprits.append((sig_base, culprit))
            ctx.fail(sig_base + ":does-not-finish", case_of(culprit if culprit is not None else texts[0]),
                     "no answer within %.1f s (child killed)" % res["budget_s"], required,
                     "a single call on a network-controlled string did not return within a wall-clock budget proportional "
                     "to the input size (time spent inside C code: regex / int / codec)")
            return
        if res["status"] != "ok":
            ctx.fail(sig_base + ":child-failed", case_of(texts[0]), res["status"], required, "child process failed")
            return
        for t, a in zip(texts, res["items"]):
            answers(t, a)

    for proto, stype in SERVICE_TYPES.items():
        for key in keys.get(proto, []):
            if stuck >= 3:
                ctx.note("strings-skipped-after-kills")
                break
            base = dict(BASE_PROPS[stype])
            base = {k: v for k, v in base.items() if k.lower() != key.lower()}
            props = [dict(base, **{key: t}) for t in strings]

            def single(t, stype=stype, base=base, key=key):
                return child.call({"op": "svc", "type": stype, "props": [dict(base, **{key: t})]}, budget_for(1, len(t)))

            def answers(t, a, stype=stype, key=key):
                ctx.note("txt:%s" % ("ok" if a.startswith("ok") else a))
                ctx.case(["txt", stype, key, t], True)
                if not a.startswith("ok"):
                    ctx.fail("strings:%s:%s:raises-out-of-discover" % (stype, key), {"type": stype, "key": key, "text": t}, a,
                             "handle_response / discover return", "TXT content of one service makes discover() raise")
            res = child.call({"op": "svc", "type": stype, "props": props}, budget_for(len(props), sum(map(len, strings))))
            judge("strings:%s:%s" % (stype, key), lambda t, stype=stype, key=key: {"type": stype, "key": key, "text": t},
                  answers, strings, res, "handle_response + discover() return within the budget")
            ctx.note("txt-key:%s" % stype)
    for fn in ("flags", "features", "version", "os", "http-request", "http-response", "dns-label"):
        if stuck >= 3:
            break
        texts = list(strings)
        if fn.startswith("http"):
            first = "%s\r\nContent-Length: 0\r\n\r\n"
            texts = [first % t for t in strings if "\r" not in t and "\n" not in t] + \
                    ["GET / HTTP/1.1\r\nContent-Length: %s\r\n\r\n" % t for t in strings if "\r" not in t and "\n" not in t]
        if fn == "dns-label":
            texts = ["xn--" + t for t in strings] + strings

        def single(t, fn=fn):
            return child.call({"op": "fn", "fn": fn, "texts": [t]}, budget_for(1, len(t)))

        def answers(t, a, fn=fn):
            ctx.note("fn:%s:%s" % (fn, "ok" if a == "ok" else "raises"))
            ctx.case(["fn", fn, t], True)
        res = child.call({"op": "fn", "fn": fn, "texts": texts}, budget_for(len(texts), sum(map(len, texts))))
        judge("strings:fn:%s" % fn, lambda t, fn=fn: {"fn": fn, "text": t}, answers, texts, res,
              "returns or raises an ordinary exception within the budget")
    found = []
    for sig_base, text in culprits:
        parts = sig_base.split(":")
        if len(parts) == 3 and parts[1] in SERVICE_TYPES.values():
            found.append(([p_ for p_, t_ in SERVICE_TYPES.items() if t_ == parts[1]][0], parts[2], text))
    return strings, found


# ---------------------------------------------------------------------------------------------
# discovery
# ---------------------------------------------------------------------------------------------
BAD_ADDR = 9
SCAN_WATCHDOG_S = 3          # a scan of a handful of datagrams takes milliseconds (virtual time)
STUCK_SCANS = []


def hostile_payloads(rng):
    """(label, [datagram spec]) — spec = ('raw', bytes) | ('recs', records) for the hostile host"""
    from harness import c12
    dev = {"addr": BAD_ADDR, "host": BAD_ADDR, "name": "Evil", "info": None, "linklocal": False,
           "sleeping": False, "ttl": 120}

    def svc(t, inst, props, port=7100):
        return c12.svc_records(dev, {"type": t, "inst": inst, "port": port, "props": props})
    header = struct.pack(">6H", 0, 0x8400, 1, 0, 0, 0)
    out = [
        ("garbage-short", [("raw", b"\x00\x01")]),
        ("garbage-random", [("raw", rng.bytes_(40))]),
        ("pointer-self", [("raw", header + b"\xC0\x0C\x00\x0C\x00\x01")]),
        ("pointer-cycle", [("raw", header + b"\x01a\xC0\x0C\x00\x0C\x00\x01")]),
        ("pointer-forward", [("raw", header + b"\xC0\x0E\x01a\x00\x00\x0C\x00\x01")]),
        ("counts-huge", [("raw", struct.pack(">6H", 0, 0x8400, 0xFFFF, 0xFFFF, 0xFFFF, 0xFFFF) + b"\x01a\x00\x00\x0C\x00\x01")]),
        ("companion-rpfl-zz", [("recs", svc(c12.T_COMPANION, "Evil", [("rpMRtID", "EVIL"), ("rpFl", "zz")]))]),
        ("airplay-flags-zz", [("recs", svc(c12.T_AIRPLAY, "Evil", [("deviceid", "EE:EE:EE:00:00:09"), ("flags", "zz")]))]),
        ("airplay-sf-zz", [("recs", svc(c12.T_AIRPLAY, "Evil", [("deviceid", "EE:EE:EE:00:00:09"), ("sf", "0xzz")]))]),
        ("airplay-features-zz", [("recs", svc(c12.T_AIRPLAY, "Evil", [("deviceid", "EE:EE:EE:00:00:09"), ("features", "zz")]))]),
        ("raop-flags-zz", [("recs", svc(c12.T_RAOP, "EEEEEE000009@Evil", [("sf", "zz"), ("tp", "UDP")]))]),
        ("airport-wama", [("recs", svc(c12.T_AIRPORT, "Evil", [("wama", "00-11-22-33-44-55,raMA")])
                           + svc(c12.T_RAOP, "EEEEEE000009@Evil", [("tp", "UDP")], port=7101))]),
        ("mrp-odd", [("recs", svc(c12.T_MRP, "Evil", [("UniqueIdentifier", "E"), ("AllowPairing", "ÿ" * 3)]))]),
        ("txt-on-bare-type", [("recs", [["T", ["typ", c12.T_AIRPLAY], 120, [["odd", "1"]]]])]),
        ("garbage+valid", [("recs", svc(c12.T_AIRPLAY, "Evil", [("deviceid", "EE:EE:EE:00:00:09")])),
                           ("raw", header + b"\xC0\x0C")]),
    ]
    return out


def pack_content(tag, records, mode):
    """A structurally valid DNS response: PTR records as answers, the rest as additional records.
    records = [(owner labels, qtype, rdata)], rdata = ('name', labels) | ('srv', prio, weight, port, labels) |
    ('raw', bytes).  Names are label lists (`qname_encode` sequence API: any label content, 0..n labels)."""
    from pyatv.core import mdns
    from pyatv.support import dns
    from harness import c12
    questions = b""
    nqd = 0
    if mode == "u":
        queries = mdns.create_service_queries(c12.make_scanner(None).services, dns.QueryType.PTR)
        qs = dns.DnsMessage().unpack(queries[tag % len(queries)]).questions
        questions = b"".join(bytes(q.pack()) for q in qs)
        nqd = len(qs)

    def rdata(spec):
        if spec[0] == "name":
            return bytes(dns.qname_encode(list(spec[1])))
        if spec[0] == "srv":
            return struct.pack(">3H", spec[1], spec[2], spec[3]) + bytes(dns.qname_encode(list(spec[4])))
        return spec[1]
    answers = [r for r in records if r[1] == 12]
    others = [r for r in records if r[1] != 12]
    out = struct.pack(">6H", 0x35FF if mode == "u" else tag, 0x8400, nqd, len(answers), 0, len(others)) + questions
    for owner, qtype, spec in answers + others:
        rd = rdata(spec)
        out += bytes(dns.qname_encode(list(owner))) + struct.pack(">2HIH", qtype, 0x8001, 120, len(rd)) + rd
    return out


def content_payloads():
    """Hostile record CONTENT in well-formed messages, one entry per place where the scan code indexes, splits
    or unpacks what a record says (ServiceParser.add_message/parse, datagram_received, _service_discovered, the
    protocol handlers' use of the instance name, get_unique_id):
      PTR targets that are not instance names · PTR owners that are not service types · SRV targets that are
      not host names, ports 0 / 65535 · TXT without '=', empty, key-less, non-ASCII · empty names, names of one or
      two labels · records owned by the bare service type · record types that do not fit the owner · A records
      in odd places · instance names the handlers split ('@', ' ')."""
    A, P, T, S = 1, 12, 16, 33
    air = ["_airplay", "_tcp", "local"]
    comp = ["_companion-link", "_tcp", "local"]
    raop = ["_raop", "_tcp", "local"]
    sleep = ["_sleep-proxy", "_udp", "local"]
    info = ["_device-info", "_tcp", "local"]
    host = ["evil", "local"]
    addr = ("raw", bytes([10, 0, 0, BAD_ADDR]))
    txt = lambda *items: ("raw", b"".join(bytes([len(i)]) + i for i in items))
    inst = lambda name, t: [name] + t

    def service(t, name, port=7100, target=host, props=(b"deviceid=EE:EE:EE:00:00:09",), with_ptr=True, with_a=True):
        recs = [(inst(name, t), S, ("srv", 0, 0, port, target)), (inst(name, t), T, txt(*props))]
        if with_ptr:
            recs.insert(0, (t, P, ("name", inst(name, t))))
        if with_a:
            recs.append((target, A, addr))
        return recs
    out = []
    # PTR targets
    for label, target in [("host-name", host), ("root", []), ("one-label", ["x"]), ("two-labels", ["a", "b"]),
                          ("tcp-local", ["_tcp", "local"]), ("the-type-itself", air), ("other-type", comp),
                          ("dotted-instance", ["Mr. Smith's TV"] + air), ("long-label", ["a" * 63] + air),
                          ("instance-no-domain", ["Evil", "_airplay", "_tcp"]), ("udp", ["Evil", "_airplay", "_udp", "local"])]:
        out.append(("ptr-target-" + label, [(air, P, ("name", target))]))
        out.append(("ptr-target-" + label + "+service", [(air, P, ("name", target))] + service(comp, "Evil")))
    # PTR owners
    for label, owner in [("one-label", ["_x"]), ("underscore", ["_"]), ("two-labels", ["_airplay", "_tcp"]),
                         ("udp", ["_airplay", "_udp", "local"]), ("instance", inst("Evil", air)), ("root", []), ("host", host)]:
        out.append(("ptr-owner-" + label, [(owner, P, ("name", inst("Evil", air)))] + service(air, "Evil", with_ptr=False)))
    # SRV
    for label, port, target in [("port-0", 0, host), ("port-65535", 65535, host), ("target-root", 7100, []),
                                ("target-one-label", 7100, ["x"]), ("target-type", 7100, air),
                                ("target-self", 7100, inst("Evil", air)), ("target-unknown-host", 7100, ["nobody", "local"])]:
        out.append(("srv-" + label, service(air, "Evil", port=port, target=target) + [(host, A, addr)]))
    out.append(("srv-owned-by-type", [(air, S, ("srv", 0, 0, 7100, host)), (host, A, addr)]))
    out.append(("srv-owned-by-host", [(host, S, ("srv", 0, 0, 7100, host)), (host, A, addr)]))
    out.append(("srv-owned-by-root", [([], S, ("srv", 0, 0, 7100, host)), (host, A, addr)]))
    out.append(("srv-twice", service(air, "Evil") + [(inst("Evil", air), S, ("srv", 1, 1, 1, ["x"]))]))
    # TXT
    for label, props in [("no-equals", (b"abc",)), ("empty-record", ()), ("empty-string", (b"",)), ("keyless", (b"=v",)),
                         ("only-equals", (b"=",)), ("non-ascii-key", (b"\xff\xfe=1",)), ("non-ascii-flag", (b"\xff\xfe",)),
                         ("non-utf8-value", (b"deviceid=\xff\xfe\xfd",)), ("nul", (b"\x00",)), ("many-equals", (b"a=b=c=d",)),
                         ("255", (b"k=" + b"v" * 253,)), ("duplicate-keys", (b"model=A", b"MODEL=B", b"model"))]:
        for t, name in ((air, "Evil"), (comp, "Evil")):
            out.append(("txt-%s-%s" % (label, t[0]), service(t, name, props=props)))
    for label, owner in [("bare-type", air), ("bare-type-companion", comp), ("one-label", ["x"]), ("two-labels", ["x", "local"]),
                         ("root", []), ("host", host), ("device-info-type", info), ("sleep-proxy-type", sleep)]:
        out.append(("txt-owned-by-" + label, [(owner, T, txt(b"model=J105aAP", b"odd"))]))
        out.append(("txt-owned-by-" + label + "+service", [(owner, T, txt(b"model=J105aAP"))] + service(air, "Evil")))
    # A records and mismatched types
    out.append(("a-link-local-only", service(air, "Evil", with_a=False) + [(host, A, ("raw", bytes([169, 254, 0, 9])))]))
    out.append(("a-owned-by-instance", service(air, "Evil", with_a=False) + [(inst("Evil", air), A, addr)]))
    out.append(("a-owned-by-type", [(air, A, addr)]))
    out.append(("a-owned-by-root", [([], A, addr)]))
    out.append(("a-many", service(air, "Evil") + [(host, A, ("raw", bytes([10, 0, 0, 200 + i]))) for i in range(4)]))
    for qtype in (0, 2, 28, 41, 47, 255, 65535):
        out.append(("type-%d-owned-by-instance" % qtype, service(air, "Evil") + [(inst("Evil", air), qtype, ("raw", b"\x01\x02"))]))
        out.append(("type-%d-owned-by-type" % qtype, [(air, qtype, ("raw", b""))]))
    out.append(("ptr-owned-by-instance", service(air, "Evil") + [(inst("Evil", air), P, ("name", host))]))
    out.append(("ptr-chain", [(air, P, ("name", comp)), (comp, P, ("name", air))]))
    # instance names the handlers take apart
    for label, t, name in [("raop-no-at", raop, "Evil"), ("raop-many-at", raop, "A@B@C"), ("raop-only-at", raop, "@"),
                           ("raop-at-end", raop, "EEEEEE000009@"), ("sleep-proxy-no-space", sleep, "NoSpace"),
                           ("sleep-proxy", sleep, "70-35-60-63.1 Evil"), ("device-info", info, "Evil"),
                           ("space-name", air, " "), ("dot-name", air, "a.b.c"), ("long-name", comp, "n" * 63)]:
        out.append(("instance-" + label, service(t, name, props=(b"model=AppleTV6,2", b"tp=UDP"))))
        out.append(("instance-" + label + "-port-0", service(t, name, port=0, props=(b"model=AppleTV6,2",))))
    # content that LACKS what a post-processing step expects: for every service type, every TXT key its consumers
    # read (extracted from the modules under test) dropped / emptied / given without '=' / given twice; no TXT
    # record at all, an empty one; no SRV, no A record; `_device-info` records without / with odd `model`
    from tools.gen import c05 as gen
    keys = gen.txt_keys()
    mrp_t = ["_mediaremotetv", "_tcp", "local"]
    dmap_t = ["_touch-able", "_tcp", "local"]
    types = {"pyatv.protocols.airplay": (air, "Evil"), "pyatv.protocols.raop": (raop, "EEEEEE000009@Evil"),
             "pyatv.protocols.companion": (comp, "Evil"), "pyatv.protocols.mrp": (mrp_t, "Evil"),
             "pyatv.protocols.dmap": (dmap_t, "DMAP0009_touch")}
    enc = lambda d: tuple(("%s=%s" % kv).encode() for kv in d.items())
    lack = []
    for proto, (t, name) in types.items():
        base = dict(BASE_PROPS[SERVICE_TYPES[proto]])
        short = proto.split(".")[-1]
        full = service(t, name, props=enc(base))
        lack.append(("%s-no-txt" % short, [r for r in full if r[1] != T]))
        lack.append(("%s-empty-txt" % short, service(t, name, props=())))
        lack.append(("%s-no-srv" % short, [r for r in full if r[1] != S]))
        lack.append(("%s-no-a" % short, service(t, name, props=enc(base), with_a=False)))
        lack.append(("%s-no-ptr" % short, service(t, name, props=enc(base), with_ptr=False)))
        lack.append(("%s-only-ptr" % short, [r for r in full if r[1] == P]))
        for k in sorted(set(base) | set(keys.get(proto, [])), key=str.lower):
            rest = {a: b for a, b in base.items() if a.lower() != k.lower()}
            if len(rest) != len(base):
                lack.append(("%s-drop-%s" % (short, k), service(t, name, props=enc(rest))))
            lack.append(("%s-empty-%s" % (short, k), service(t, name, props=enc(rest) + (("%s=" % k).encode(),))))
            lack.append(("%s-flag-%s" % (short, k), service(t, name, props=enc(rest) + (k.encode(),))))
            lack.append(("%s-twice-%s" % (short, k), service(t, name, props=enc(base) + (("%s=zz" % k).encode(), ("%s=" % k.upper()).encode()))))
    # `_device-info` (read when the responses are assembled, after all per-datagram handling) and `_sleep-proxy`
    for label, props in [("empty-txt", ()), ("empty-string", (b"",)), ("other-keys", (b"osxvers=22",)), ("model-empty", (b"model=",)),
                         ("model-flag", (b"model",)), ("model-twice", (b"model=J105aAP", b"model=X")), ("model-padded", (b"model=J105aAP\x00 ",)),
                         ("model-non-utf8", (b"model=\xff\xfe",))]:
        di = [(inst("Evil", info), T, txt(*props))]
        lack.append(("device-info-%s" % label, di))
        lack.append(("device-info-%s+airplay" % label, service(air, "Evil") + di))
        lack.append(("device-info-%s+companion" % label, service(comp, "Evil", props=enc(BASE_PROPS["_companion-link._tcp.local"])) + di))
    lack.append(("device-info-srv-only+airplay", service(air, "Evil") + [(inst("Evil", info), S, ("srv", 0, 0, 0, host))]))
    lack.append(("device-info-ptr-only", [(info, P, ("name", inst("Evil", info)))]))
    lack.append(("sleep-proxy-empty-txt", service(sleep, "70-35-60-63.1 Evil", port=0, props=())))
    lack.append(("sleep-proxy-no-txt+airplay-port-0", [r for r in service(sleep, "70-35-60-63.1 Evil", port=0) if r[1] != T] + service(air, "Evil", port=0)))
    return [("content:" + label, [("wire", recs)]) for label, recs in out] + \
           [("content:lack-" + label, [("wire", recs)]) for label, recs in lack]


def clone_payloads(devs):
    """A hostile host at its OWN address and host name that re-announces a well-formed device's publicly broadcast
    identity: the same instance names, TXT records (deviceid, UniqueIdentifier, rpMRtID, …) and ports.  Its
    datagrams arrive first ("-first") or last.  The victim must still be found AND returned by `pyatv.scan`."""
    from harness import c12
    out = []
    for label, victim, services in (("all-first", devs[0], None), ("one-service-first", devs[-1], 1),
                                    ("all-last", devs[len(devs) // 2], None)):
        evil = dict(victim, addr=BAD_ADDR, host=BAD_ADDR, linklocal=False, sleeping=False)
        recs = []
        for svc in victim["services"][:services]:
            for r in c12.svc_records(evil, svc):
                if r not in recs:
                    recs.append(r)
        out.append(("clone-identity-" + label, [("recs", recs)]))
    return out


def good_devices(rng, n):
    from harness import c12
    devs = []
    for i in range(n):
        d = c12.gen_device(rng.fork("good", i), i, allow_noid=False)
        d["sleeping"] = False
        devs.append(d)
    return devs


def build_case(rng, mode, devs, payload):
    """desc in c12 format + raw overrides; hostile datagrams inserted at random positions"""
    from harness import c12
    from pyatv.core import mdns
    from pyatv.support import dns
    dgrams, tag = [], 0
    if mode == "m":
        for dev in devs:
            for recs in c12.device_datagrams_m(dev, rng, rng.randint(1, 2)):
                dgrams.append({"src": dev["addr"], "tag": tag, "recs": recs})
                tag += 1
        hosts = []
    else:
        nq = len(mdns.create_service_queries(c12.make_scanner(None).services, dns.QueryType.PTR))
        for dev in devs:
            recs = []
            for s in dev["services"]:
                for r in c12.svc_records(dev, s):
                    if r not in recs:
                        recs.append(r)
            for q in range(nq):
                dgrams.append({"src": dev["addr"], "tag": q, "recs": recs if q == 0 else []})
        hosts = [d["addr"] for d in devs]
    good = json.loads(json.dumps(dgrams))
    raw = {}
    bad = []
    if payload is not None:
        specs = list(payload[1])
        if mode == "u":
            # the fake unicast transport stops a host's feed at the first exception: raw datagrams last
            specs.sort(key=lambda s: s[0] == "raw")
            nq = len(mdns.create_service_queries(c12.make_scanner(None).services, dns.QueryType.PTR))
            wires = [s for s in specs if s[0] == "wire"]
            if wires:
                # structurally valid messages with hostile record content: the host answers EVERY query (content
                # first, then empty answers), so its protocol completes and `get_response` parses what it collected
                specs = wires + [("recs", [])] * max(0, nq - len(wires)) + [s for s in specs if s[0] == "raw"]
            while len([s for s in specs if s[0] == "recs"]) < nq and any(s[0] == "recs" for s in specs) and not wires:
                specs.insert(0, ("recs", []))
            hosts = hosts + [BAD_ADDR]
        for j, (kind, body) in enumerate(specs):
            d = {"src": BAD_ADDR, "tag": 50 + j if mode == "m" else j, "recs": body if kind == "recs" else []}
            if kind == "raw":
                d["raw"] = body.hex()
            if kind == "wire":
                d["raw"] = pack_content(j if mode == "u" else 50 + j, body, mode).hex()
                d["content"] = True          # decodes fine: outside the model's garbage = empty datagram reading
            bad.append(d)
        first = payload[0].endswith("-first")
        last = payload[0].endswith("-last")
        if mode == "m":
            for k, d in enumerate(bad):
                dgrams.insert(k if first else len(dgrams) if last else rng.randint(0, len(dgrams)), d)
        else:
            dgrams = dgrams + bad
            if first or (not last and rng.chance(0.5)):
                dgrams = bad + dgrams[:-len(bad)]
            if first:
                hosts = [BAD_ADDR] + [h for h in hosts if h != BAD_ADDR]      # results follow the order of `hosts`
    base = {"mode": mode, "protoset": None, "hosts": hosts, "enc": rng.choice(["r", "c"]), "absent": [], "consistent": True}
    return dict(base, dgrams=dgrams), dict(base, dgrams=good, hosts=[h for h in hosts if h != BAD_ADDR])


def real_scan(desc):
    from harness import c12
    case = c12.Case({k: v for k, v in desc.items()})
    for i, d in enumerate(desc["dgrams"]):
        if "raw" in d:
            case.wire[i] = bytes.fromhex(d["raw"])
    order = list(range(len(desc["dgrams"])))
    old = signal.signal(signal.SIGALRM, _on_alarm)
    signal.setitimer(signal.ITIMER_REAL, SCAN_WATCHDOG_S)
    try:
        if any(d.get("content") for d in desc["dgrams"]):
            # record content outside c12's numbering tables: only the real objects are looked at (oracle)
            res = c12.run_real(case.mode, case.protoset, case.hosts,
                               [(desc["dgrams"][i]["src"], case.wire[i]) for i in order])
            shown = {"resp": None, "raw": None, "snap": None}
        else:
            res, shown = case.real(order)
    except Hang:
        STUCK_SCANS.append(1)
        res, shown = {"error": "Hang", "configs": [], "responses": [], "services": None}, {"resp": None, "raw": None, "snap": "error:Hang"}
    finally:
        signal.setitimer(signal.ITIMER_REAL, 0)
        signal.signal(signal.SIGALRM, old)
    return case, order, res, shown


def snapshot(res, only=None):
    """the property's observation from the real objects: per address, services with what service_info set"""
    if res["error"]:
        return "error:" + res["error"]
    out = []
    for c in res["configs"]:
        if only is not None and str(c.address) not in only:
            continue
        svcs = sorted((s.protocol.name, s.port, s.identifier, tuple(sorted(s.properties.items())),
                       s.pairing.name, s.requires_password) for s in c.services)
        out.append((str(c.address), c.name, tuple(sorted(c.all_identifiers)), tuple(svcs), c.device_info.model.name,
                    bool(c.deep_sleep)))
    return sorted(out, key=repr)


def string_payloads(ctx, rng, strings, culprits=()):
    """hostile hosts whose announcement is well-formed DNS with one adversarial TXT value"""
    from harness import c12
    from tools.gen import c05 as gen
    dev = {"addr": BAD_ADDR, "host": BAD_ADDR, "name": "Evil", "info": None, "linklocal": False,
           "sleeping": False, "ttl": 120}
    types = {"pyatv.protocols.airplay": (c12.T_AIRPLAY, "Evil"), "pyatv.protocols.raop": (c12.T_RAOP, "EEEEEE000009@Evil"),
             "pyatv.protocols.companion": (c12.T_COMPANION, "Evil"), "pyatv.protocols.mrp": (c12.T_MRP, "Evil")}
    keys = gen.txt_keys()
    combos = [(proto, key) for proto in types for key in keys.get(proto, [])]
    long_ = [t for t in strings if 20 <= len(t.encode("utf-8")) <= 200 and "\x00" not in t] or ["1" * 50]
    out = []
    picks = [(p_, k_, t_) for p_, k_, t_ in culprits if p_ in types and len(t_.encode("utf-8")) <= 240][:2]
    for i in range(ctx.scale(10, 40)):
        proto, key = rng.choice(combos)
        picks.append((proto, key, rng.choice(long_)))
    for i, (proto, key, text) in enumerate(picks):
        t, inst = types[proto]
        base = [(k, v) for k, v in BASE_PROPS[SERVICE_TYPES[proto]].items() if k.lower() != key.lower()]
        recs = c12.svc_records(dev, {"type": t, "inst": inst, "port": 7100, "props": base + [(key, text)]})
        out.append(("txt-string-%d:%s:%s" % (i, proto.split(".")[-1], key), [("recs", recs)]))
    return out


def run_discovery(ctx, child, strings, culprits=()):
    rng = ctx.rng.fork("discovery")
    payloads = string_payloads(ctx, rng.fork("strings"), strings, culprits) + hostile_payloads(rng)
    contents = content_payloads()
    ctx.notes["hostile_record_contents"] = len(contents)
    lines, pending = [], []
    stuck = 0
    for mode in ("m", "u"):
        for ndev in range(1, 5):
            reps = ctx.scale(1, 3)
            for rep in range(reps):
                devs = good_devices(rng.fork(mode, ndev, rep), ndev)
                # hostile record content: every entry through the full unicast scan of several hosts (that path parses
                # a host's records only at the end, outside every per-datagram barrier), a share through multicast
                if ctx.thorough:
                    mine = [c for i, c in enumerate(contents) if ndev == (1 + (i + rep) % 4 if mode == "u" else 2 + (i + rep) % 2)]
                else:
                    # quick: per-key variants alternate between the scanners; `_device-info` / record-level ones go to both
                    both = lambda c: "lack-" not in c[0] or "device-info" in c[0] or "-no-" in c[0] or "-only-" in c[0]
                    mine = [c for i, c in enumerate(contents) if rep == 0 and (
                        (ndev == 2 + i % 2 and (both(c) or i % 2 == 0)) if mode == "u" else
                        (ndev == 2 and (i % 3 == 0 if "lack-" not in c[0] else both(c) or i % 2 == 1)))]
                for payload in payloads + mine + clone_payloads(devs):
                    if payload[0].startswith("txt-string") and (ndev + rep) % 2 and not ctx.thorough:
                        continue
                    if stuck >= 3:
                        ctx.note("discovery-skipped-after-hangs")
                        continue
                    crng = rng.fork(mode, ndev, rep, payload[0])
                    desc, good = build_case(crng, mode, devs, payload)
                    good_addrs = sorted("10.0.0.%d" % d["addr"] for d in devs)
                    nbytes = len(json.dumps(desc))
                    res = child.call({"op": "scan", "desc": desc, "good": good, "good_addrs": good_addrs},
                                     budget_for(len(desc["dgrams"]), nbytes) + SCAN_WATCHDOG_S * 2)
                    label = payload[0].split(":")[0].rstrip("0123456789").rstrip("-") if payload[0].startswith("txt-string") else payload[0]
                    small = {"mode": mode, "devices": ndev, "hostile": payload[0], "desc": desc, "good": good,
                             "good_addrs": good_addrs}
                    ctx.note("discovery:" + mode)
                    ctx.note("hostile:" + label)
                    ctx.note("good-devices:%d" % ndev)
                    if res["status"] != "ok":
                        stuck += 1
                        ctx.case([mode, ndev, rep, payload[0], desc["dgrams"]], True)
                        ctx.fail("discovery:%s:%s:scan-does-not-finish" % (mode, label), small, res["status"],
                                 "scan returns the well-formed devices", "scan with one hostile host did not return within "
                                 "the wall-clock budget (%s)" % payload[0])
                        continue
                    ctx.case([mode, ndev, rep, payload[0], desc["dgrams"]], True,
                             sample={"mode": mode, "good": ndev, "hostile": payload[0], "returned": res["returned"]})
                    if res["error"] == "Hang":
                        stuck += 1
                    if res["want_empty"]:
                        ctx.disagree(small, res["want"], "reference scan of the good devices returns them", where="generator")
                    if res["got"] != res["want"]:
                        ctx.fail("discovery:%s:%s:hostile-host-changes-result" % (mode, label), small, res["got"][:700],
                                 res["want"][:700], "configurations of the well-formed devices differ from the scan without "
                                 "the hostile host (%s)" % payload[0])
                    if res["line"] is not None:
                        lines.append(res["line"])
                        pending.append((small, res["snap"]))
    from harness import c12
    for (small, snap), ans in zip(pending, ctx.lean(lines)):
        model = c12.parse_answer(ans)
        if model is None:
            ctx.disagree(small, snap, ans, where="discovery driver answer")
        elif snap != model["snap"]:
            ctx.disagree(small, snap, model["snap"], where="discovery snapshot")
        ctx.validated()


# ---------------------------------------------------------------------------------------------
def run(ctx):
    import logging
    logging.disable(logging.CRITICAL)
    old = signal.signal(signal.SIGALRM, _on_alarm)
    signal.setitimer(signal.ITIMER_REAL, WATCHDOG_S * (6 if ctx.thorough else 1))
    try:
        D = Decoders()
        bench = Bench(ctx)
        run_dns(ctx, D, bench)
        run_small(ctx, D, bench)
        run_loops(ctx, D, bench)
        run_flags(ctx, D, bench)
        run_http_values(ctx, D, bench)
        run_raop_datagrams(ctx, D, bench)
        run_opack(ctx, D, bench)
        run_dmap(ctx, D, bench)
        strip = {"companion": lambda s: " ".join(s.split(" ")[1:]),      # frames are not observable for Companion
                 "flags": D.flags_view}                                   # the seam shows two bits of the parsed value
        bench.finish(strip, D.uncounted)
        run_pinned_witnesses(ctx)
    except Hang:
        ctx.fail("watchdog:decoder-run-exceeded-wall-clock", {"watchdog_s": WATCHDOG_S}, "Hang", "all decoder runs finish",
                 "a decode call blocked outside traced Python code (wall-clock watchdog)")
    finally:
        signal.setitimer(signal.ITIMER_REAL, 0)
        signal.signal(signal.SIGALRM, old)
    child = Child()
    try:
        strings, culprits = run_strings(ctx, child)
        run_discovery(ctx, child, strings, culprits)
    finally:
        child.close()


def replay(ctx, failure):
    """Re-run one recorded oracle failure on the real code."""
    case = failure["case"]
    sig = failure["sig"]
    if sig.startswith("strings:") or sig.endswith(":scan-does-not-finish"):
        child = Child()
        try:
            if sig.startswith("strings:fn:"):
                r = child.call({"op": "fn", "fn": case["fn"], "texts": [case["text"]]}, budget_for(1, len(case["text"])))
            elif sig.startswith("strings:"):
                stype = case["type"]
                base = {k: v for k, v in BASE_PROPS.get(stype, {}).items() if k.lower() != case["key"].lower()}
                r = child.call({"op": "svc", "type": stype, "props": [dict(base, **{case["key"]: case["text"]})]},
                               budget_for(1, len(case["text"])))
                if r["status"] == "ok" and sig.endswith("raises-out-of-discover"):
                    return not r["items"][0].startswith("ok")
            else:
                r = child.call({"op": "scan", "desc": case["desc"], "good": case["good"], "good_addrs": case["good_addrs"]},
                               budget_for(len(case["desc"]["dgrams"]), 2000) + SCAN_WATCHDOG_S * 2)
            return r["status"] != "ok"
        finally:
            child.close()
    if sig.startswith("discovery:"):
        desc = case["desc"]
        good = dict(desc, dgrams=[d for d in desc["dgrams"] if d["src"] != BAD_ADDR],
                    hosts=[h for h in desc["hosts"] if h != BAD_ADDR])
        _, _, ref, _ = real_scan(good)
        _, _, res, _ = real_scan(desc)
        addrs = {"10.0.0.%d" % d["src"] for d in good["dgrams"]}
        return snapshot(res, only=addrs) != snapshot(ref)
    if sig.startswith("watchdog:"):
        return True
    D = Decoders()
    dec = case["decoder"]
    inp = case["input"]
    text = inp[0] if isinstance(inp, list) else inp
    try:
        data = b"" if text == "-" else bytes.fromhex(text)
    except ValueError:
        return True                                   # descriptive inputs (deep TLV …): re-run the check
    from pyatv.protocols.dmap import tag_definitions
    base = dec.replace("-negative-length", "").replace("-length-value", "")
    fn = {"name": lambda: D.name(data, inp[1]), "dns": lambda: D.dnsmsg(data), "tlv": lambda: D.tlv(data),
          "var": lambda: D.var(data), "mrp": lambda: D.mrp(data), "companion": lambda: D.companion(data),
          "hap": lambda: D.hap(data), "data": lambda: D.data(data), "data-real-payload": lambda: D.data(data, False),
          "event": lambda: D.event(data), "server": lambda: D.server(data), "http": lambda: D.httpc(data),
          "pb": lambda: D.pb(data), "pb-real-protobuf": lambda: D.pb(data, False), "opack": lambda: D.opack_(data),
          "dmap": lambda: D.dmap(data, tag_definitions.lookup_tag),
          "raop-control": lambda: D.control(data), "raop-timing": lambda: D.timing(data),
          "flags": lambda: D.flags(data.decode())}.get(base)
    if fn is None:
        return True
    _, r, _ = fn()
    return not ordinary(r["status"]) or sig.endswith("more-work-than-bound")


if __name__ == "__main__":
    if "--child" in sys.argv:
        child_main()
