"""C19 — correspondence + direct oracle for the keep-alive loop.

Real code driven: pyatv.core.protocol.heartbeater (scripted sender, scripted sleep with
*real* task cancellation delivered at the await), plus its two wirings
MrpProtocol.enable_heartbeat and AP2Session.start_keep_alive.

Script alphabet (one letter per loop iteration): o = keep-alive answered, f = fails,
s = cancel delivered at the first await of the iteration, c = cancel while the send is
outstanding.  Model line: `run <retries> <script>` -> `<iterations> <events>`.
"""
import asyncio
import itertools
import logging

_NULL = logging.NullHandler()

RULE = ("exhaustive scripts over {o,f,s,c} up to a tier-dependent length x retries 0..3, run on the real "
        "heartbeater and on the Lean model; non-trivial = script reaches a terminating event (failure or "
        "cancel) after at least one non-terminating iteration; distinct = (variant, retries, script)")
ASSUMPTIONS = [
    "asyncio delivers a task cancellation as CancelledError at the await the task is suspended in",
    "asyncio.sleep is replaced by a scripted coroutine that really suspends (virtual time: no wall-clock wait)",
]
TRUSTED = ["the scripted sender/sleep fakes of harness/c19.py"]


class _AsyncioShim:
    """Stands in for the `asyncio` module inside pyatv.core.protocol: scripted sleep."""

    def __init__(self, sleep):
        self.sleep = sleep

    def __getattr__(self, name):
        return getattr(asyncio, name)


class Script:
    def __init__(self, script):
        self.script = script
        self.i = 0
        self.events = []
        self.parked = asyncio.Event()
        self.recording = True
        self.in_iteration = False
        self.cancel_fn = None      # how the loop is ended at 's'/'c' (default: cancel the task)
        self.stopped = False

    def _outcome(self):
        return self.script[self.i] if self.i < len(self.script) else None

    def _cancel(self):
        if self.cancel_fn is None:
            asyncio.current_task().cancel()
        else:
            # the owner ends the keep-alive through its own API (AP2Session.stop()); from then
            # on the connection is closed: a loop that keeps running finds every send failing
            self.stopped = True
            self.cancel_fn()

    async def _park(self):
        self.recording = False
        self.parked.set()
        await asyncio.Event().wait()

    async def sleep(self, _interval):
        o = self._outcome()
        if len(self.events) > 4 * len(self.script) + 8:
            # the loop keeps iterating without consuming the script (e.g. a sender that
            # silently skips): record it and stop instead of spinning forever
            self.events.append("runaway")
            o = None
        if o is None and not (self.stopped and "runaway" not in self.events):
            await self._park()
        self.events.append("sleep")
        self.in_iteration = True
        if o == "s":
            self.i += 1
            self._cancel()
        await asyncio.sleep(0)

    async def sender(self, _message=None):
        o = self._outcome()
        if o is None and self.stopped and "runaway" not in self.events:
            self.events.append("send")
            raise RuntimeError("not connected to remote")
        if o is None:
            await self._park()
        self.events.append("send")
        self.i += 1
        if o == "o":
            return
        if o == "O":
            # answered, but slower than the keep-alive interval (virtual time)
            await asyncio.sleep(45)
            return
        if o in ("f", "F"):
            if o == "F":
                # a failure that takes longer than the keep-alive interval to show (the
                # sender's own time-out on a silent device): still one failed keep-alive
                await asyncio.sleep(45)
            # failures come in the exception classes real senders raise (a timeout is an
            # OSError on Python >= 3.11), with and without arguments (async_timeout raises a
            # bare TimeoutError()); the loop and its wirings must treat them all alike
            kinds = [lambda: RuntimeError("keep-alive failed"), lambda: asyncio.TimeoutError(), lambda: OSError(),
                     lambda: ConnectionResetError("reset by peer"), lambda: ValueError(), lambda: TimeoutError("timed out"),
                     lambda: OSError(110, "Connection timed out")]
            raise kinds[self.i % len(kinds)]()
        self._cancel()
        await asyncio.sleep(0)

    def record(self, ev):
        if self.recording:
            self.events.append(ev)


async def _drive(task, sc):
    waiter = asyncio.ensure_future(sc.parked.wait())
    await asyncio.wait([task, waiter], return_when=asyncio.FIRST_COMPLETED)
    if not task.done():
        task.cancel()
        try:
            await task
        except asyncio.CancelledError:
            pass
    waiter.cancel()
    await asyncio.sleep(0)


class HandlerError(Exception):
    """what a faulty user handler raises out of connection_lost"""


async def run_plain(protocol_mod, retries, sc, raising=False):
    def failure(exc):
        sc.record("failure")
        if raising:
            # the report ends up in user code (DeviceListener.connection_lost), which may
            # itself fail: the loss must still be declared once and the keep-alives stop
            raise HandlerError("listener failed")

    task = asyncio.ensure_future(protocol_mod.heartbeater(
        "verif", sc.sender, finish_func=lambda: sc.record("finish"),
        failure_func=failure, retries=retries, interval=30))
    await _drive(task, sc)
    if task.done() and not task.cancelled():
        task.exception()   # retrieved: a raising handler ends the task with its exception
    return sc


async def run_mrp(protocol_mod, sc):
    """MrpProtocol.enable_heartbeat: failure must close the connection (once)."""
    from pyatv.protocols.mrp import protocol as mrp_protocol

    class Conn:
        listener = None

        def close(self):
            sc.record("failure")

        def __str__(self):
            return "verif"

    prot = mrp_protocol.MrpProtocol(Conn(), None, None, None)

    async def send_and_receive(message, *a, **k):
        await sc.sender(message)

    prot.send_and_receive = send_and_receive
    prot.enable_heartbeat()
    task = prot._heartbeat_task
    await _drive(task, sc)
    return sc


async def run_ap2(protocol_mod, sc, late=False, holder=None, raising=False, facade=False, stop_api=False):
    """AP2Session.start_keep_alive: failure -> connection_lost, cancel -> connection_closed."""
    from pyatv.protocols.airplay import ap2_session
    from pyatv.support.state_producer import StateProducer

    class Listener:
        def connection_lost(self, exc):
            sc.record("failure")
            if raising:
                raise HandlerError("listener failed")

        def connection_closed(self):
            sc.record("finish")

    class Rtsp:
        async def feedback(self):
            await sc.sender()

    producer = StateProducer()
    if facade:
        # the device listener pyatv.connect() really passes: FacadeAppleTV, a producer that
        # relays ONE call (max_calls=1) and closes everything when its state is updated
        class Facade(StateProducer):
            def __init__(self):
                super().__init__(max_calls=1)
                self.sess = None

            def state_was_updated(self):
                if self.sess is not None:
                    self.sess.stop()

        producer = Facade()
    lst = Listener()
    if late:
        # the normal flow: atv = await connect(...) starts the keep-alive, the user
        # assigns atv.listener afterwards (here: a placeholder first, then the real one)
        class Old:
            def connection_lost(self, exc):
                sc.record("stale-listener")

            def connection_closed(self):
                sc.record("stale-listener")

        old = Old()
        producer.listener = old
    else:
        producer.listener = lst
    if holder is not None and "sess" in holder:
        sess = holder["sess"]        # second use of the same session object
    else:
        sess = ap2_session.AP2Session("127.0.0.1", 7000, None, None)
        if holder is not None:
            holder["sess"] = sess
    sess.rtsp = Rtsp()
    sess.start_keep_alive(producer)
    if stop_api:
        sc.cancel_fn = sess.stop
    if facade:
        producer.sess = sess
    if late:
        producer.listener = lst
    task = sess._feedback_task
    await _drive(task, sc)
    if task.done() and not task.cancelled():
        task.exception()
    return sc


async def run_mrp_real(script):
    """MrpProtocol.enable_heartbeat with the REAL send_and_receive/_receive/stop under
    virtual time: o = the device answers the keep-alive, f = no answer (5 s timeout),
    c = stop() while the keep-alive is in flight, s = stop() at the first await of the
    iteration.  Observed: number of keep-alives sent, number of connection.close() calls."""
    from pyatv.protocols.mrp import messages, protobuf
    from pyatv.protocols.mrp import protocol as mrp_protocol

    sends, closes = [], []
    send_evt = asyncio.Event()

    class Conn:
        listener = None

        def send(self, msg):
            sends.append(msg)
            send_evt.set()

        def close(self):
            closes.append(1)

        def __str__(self):
            return "verif"

    prot = mrp_protocol.MrpProtocol(Conn(), None, None, None)
    prot._state = mrp_protocol.ProtocolState.READY
    prot.enable_heartbeat()
    task = prot._heartbeat_task
    stopped = False
    for o in script:
        if task.done():
            break
        if o == "s":
            await asyncio.sleep(0.5)
            prot.stop()
            stopped = True
            break
        try:
            await asyncio.wait_for(send_evt.wait(), 60)
        except asyncio.TimeoutError:
            break
        send_evt.clear()
        if o == "o":
            reply = messages.create(protobuf.GENERIC_MESSAGE)
            reply.identifier = sends[-1].identifier
            prot.message_received(reply, None)
            await asyncio.sleep(0.01)
        elif o == "f":
            await asyncio.sleep(6)
        else:
            prot.stop()
            stopped = True
            break
    await asyncio.sleep(20)  # anything the loop still wants to do after a stop happens now
    observed = (len(sends), len(closes), stopped, task.done())
    if not task.done():
        task.cancel()
        try:
            await task
        except (asyncio.CancelledError, Exception):  # noqa: BLE001
            pass
    return observed


def oracle(retries, script, events, variant):
    """The property, stated directly (independent of the Lean model)."""
    problems = []
    streak, expect = 0, None
    for ch in script:
        if ch in "sc":
            expect = "finish"
            break
        if ch == "f":
            streak += 1
            if streak == retries + 1:
                expect = "failure"
                break
        else:
            streak = 0
    nfail = events.count("failure")
    if expect == "failure":
        if nfail != 1:
            problems.append(f"{retries + 1} consecutive keep-alives failed but failure reported {nfail} times")
        elif events[-1] != "failure":
            problems.append("events continue after the failure report: %s" % events)
    else:
        if nfail:
            problems.append("failure reported although no %d consecutive keep-alives failed before cancel" % (retries + 1))
    if expect == "finish" and variant != "mrp" and "finish" not in events:
        problems.append("cancelled loop did not finish")
    if expect == "finish" and events and events[-1] not in ("finish",) and variant != "mrp":
        problems.append("events after cancellation: %s" % events)
    return problems


def scripts(maxlen):
    yield ""
    for n in range(1, maxlen + 1):
        for t in itertools.product("ofsc", repeat=n):
            s = "".join(t)
            # a script continues after a terminating letter only as dead suffix; keep one
            # representative so the "nothing after the end" claim is still exercised
            term = next((i for i, ch in enumerate(s) if ch in "sc"), None)
            if term is not None and term < n - 2:
                continue
            yield s


def execute(protocol_mod, cases):
    """Run every (variant, retries, script) on the real code under virtual time; returns
    observed events.  `script` may be a pair for the variants that run two loops."""
    from harness.core import vloop

    by_task = {}

    async def fake_sleep(interval, *a, **k):
        sc = by_task.get(asyncio.current_task())
        if sc is None:   # not one of the loops under test
            return await asyncio.sleep(interval)
        return await sc.sleep(interval)

    async def as_task(coro_fn, sc, *args):
        by_task[asyncio.current_task()] = sc
        await coro_fn(*args)

    orig = protocol_mod.asyncio
    protocol_mod.asyncio = _AsyncioShim(fake_sleep)
    orig_ensure = asyncio.ensure_future
    results = []
    loop = vloop.VirtualLoop()
    asyncio.set_event_loop(loop)

    def ensure_future_tagged(coro, *a, **k):
        # tasks created by the code under test inherit the script of their creator
        t = orig_ensure(coro, *a, **k)
        cur = None
        try:
            cur = asyncio.current_task()
        except RuntimeError:
            pass
        if cur in by_task:
            by_task[t] = by_task[cur]
        return t

    asyncio.ensure_future = ensure_future_tagged
    try:
        for variant, r, s in cases:
            by_task.clear()
            if variant == "pair":
                # two keep-alive loops alive at once with the same name: each must follow
                # its own script
                scs = [Script(s[0]), Script(s[1])]

                async def both():
                    t1 = orig_ensure(as_task(run_plain, scs[0], protocol_mod, r, scs[0]))
                    t2 = orig_ensure(as_task(run_plain, scs[1], protocol_mod, r, scs[1]))
                    await asyncio.gather(t1, t2)

                loop.run_until_complete(both())
                results.append((variant, r, s, [scs[0].events, scs[1].events], [scs[0].i, scs[1].i]))
                continue
            if variant == "ap2x2":
                # the same AP2Session object used for two keep-alive rounds
                scs = [Script(s[0]), Script(s[1])]
                holder = {}

                async def twice():
                    for sc in scs:
                        by_task[asyncio.current_task()] = sc
                        await run_ap2(protocol_mod, sc, holder=holder)

                loop.run_until_complete(orig_ensure(twice()))
                results.append((variant, r, s, [scs[0].events, scs[1].events], [scs[0].i, scs[1].i]))
                continue
            sc = Script(s)
            debug = variant.endswith("debug")
            if debug:
                # a run-time parameter of the process: the user has switched on debug logging
                # (records go to a null handler; nothing is printed)
                prev_disable = logging.root.manager.disable
                logging.disable(logging.NOTSET)
                plog = logging.getLogger("pyatv")
                prev = (plog.level, plog.propagate)
                plog.setLevel(logging.DEBUG)
                plog.propagate = False
                plog.addHandler(_NULL)
            if variant in ("plain", "plaindebug"):
                coro = as_task(run_plain, sc, protocol_mod, r, sc)
            elif variant == "plainraise":
                coro = as_task(lambda pm, rr, x: run_plain(pm, rr, x, raising=True), sc, protocol_mod, r, sc)
            elif variant == "ap2raise":
                coro = as_task(lambda pm, x: run_ap2(pm, x, raising=True), sc, protocol_mod, sc)
            elif variant == "ap2facade":
                coro = as_task(lambda pm, x: run_ap2(pm, x, facade=True), sc, protocol_mod, sc)
            elif variant == "ap2stop":
                coro = as_task(lambda pm, x: run_ap2(pm, x, stop_api=True), sc, protocol_mod, sc)
            elif variant in ("mrp", "mrpdebug"):
                coro = as_task(run_mrp, sc, protocol_mod, sc)
            elif variant == "ap2late":
                coro = as_task(lambda pm, x: run_ap2(pm, x, late=True), sc, protocol_mod, sc)
            else:
                coro = as_task(run_ap2, sc, protocol_mod, sc)
            try:
                loop.run_until_complete(orig_ensure(coro))
            finally:
                if debug:
                    plog.removeHandler(_NULL)
                    plog.setLevel(prev[0])
                    plog.propagate = prev[1]
                    logging.disable(prev_disable)
            results.append((variant, r, s, sc.events, sc.i))
    finally:
        asyncio.ensure_future = orig_ensure
        protocol_mod.asyncio = orig
        asyncio.set_event_loop(None)
        loop.close()
    return results


def run_real_cases(cases):
    from harness.core import vloop

    out = []
    for i in range(0, len(cases), 50):
        async def batch(chunk):
            res = []
            for sc in chunk:
                try:
                    res.append(await run_mrp_real(sc))
                except Exception as e:  # noqa: BLE001
                    res.append("error:" + type(e).__name__)
            return res
        out += vloop.run(batch, cases[i:i + 50])
    return out


def run(ctx, only=None):
    from pyatv.core import protocol as protocol_mod

    maxlen = ctx.scale(7, 9)
    wiring_len = ctx.scale(6, 7)
    cases = []
    for r in range(4):
        for s in scripts(maxlen):
            cases.append(("plain", r, s))
    default_r = protocol_mod.HEARTBEAT_RETRIES
    for s in scripts(wiring_len):
        cases.append(("mrp", default_r, s))
        cases.append(("ap2", default_r, s))
        cases.append(("ap2late", default_r, s))
    # answered-but-slow keep-alives ('O': success after more than the interval)
    slow_len = ctx.scale(5, 6)
    for r in (0, 1, 2):
        for s in scripts(slow_len):
            if "o" in s:
                cases.append(("plain", r, s.replace("o", "O", 1)))
                cases.append(("plain", r, s.replace("o", "O")))
    for s in scripts(4):
        if "o" in s:
            cases.append(("ap2", default_r, s.replace("o", "O")))
            cases.append(("mrp", default_r, s.replace("o", "O", 1)))
    # failures that take longer than the interval to show ('F')
    for r in (0, 1, 2, 3):
        for s in scripts(slow_len):
            if "f" in s:
                cases.append(("plain", r, s.replace("f", "F")))
                cases.append(("plain", r, s.replace("f", "F", 1)))
    for s in scripts(5):
        if "f" in s:
            cases.append(("ap2", default_r, s.replace("f", "F")))
            cases.append(("mrp", default_r, s.replace("f", "F")))
    # the consumer of the report and the process environment: a handler that raises, the
    # facade-like device listener (relays one call, then closes), debug logging switched on
    env_len = ctx.scale(5, 6)
    for s in scripts(env_len):
        for r in (0, 1, 2):
            cases.append(("plainraise", r, s))
        cases.append(("plaindebug", default_r, s))
        cases.append(("ap2raise", default_r, s))
        cases.append(("ap2facade", default_r, s))
        if "s" in s or "c" in s:
            cases.append(("ap2stop", default_r, s))   # ended through AP2Session.stop()
        cases.append(("ap2debug", default_r, s))
        cases.append(("mrpdebug", default_r, s))
    # two loops alive at once with the same name; the same AP2Session used twice
    pair_pool = [s for s in scripts(4)]
    rng = ctx.rng.fork("pairs")
    for r in (0, 1, 2):
        for _ in range(ctx.scale(120, 800)):
            cases.append(("pair", r, (rng.choice(pair_pool), rng.choice(pair_pool))))
    for _ in range(ctx.scale(120, 800)):
        cases.append(("ap2x2", default_r, (rng.choice(pair_pool), rng.choice(pair_pool))))
    ctx.exhaustive = True
    if only is not None:
        cases = [tuple(c[:2]) + (tuple(c[2]) if isinstance(c[2], list) else c[2],) for c in only]

    results = execute(protocol_mod, cases)
    # flatten the two-loop variants: each loop is judged on its own script
    flat = []
    for (variant, r, s, events, consumed) in results:
        if variant in ("pair", "ap2x2"):
            for k in (0, 1):
                flat.append((variant + ":" + str(k), r, s[k], events[k], consumed[k], s))
        else:
            flat.append((variant, r, s, events, consumed, s))
    results = flat

    real_len = ctx.scale(5, 6)
    # every real-MRP script ends with a stop (in flight) unless it already contains one:
    # the real loop cannot be frozen mid-iteration the way the scripted fakes can
    real_cases = sorted({sc if ("s" in sc or "c" in sc) else sc + "c" for sc in scripts(real_len)}) if only is None else []
    real_results = run_real_cases(real_cases)
    real_answers = ctx.lean([f"run {default_r} {sc or '-'}" for sc in real_cases])
    for sc, obs, ans in zip(real_cases, real_results, real_answers):
        ctx.note("variant:mrp-real")
        if isinstance(obs, str):
            ctx.disagree({"variant": "mrp-real", "script": sc}, obs, ans, where="mrp-real run failed")
            continue
        n_sends, n_closes, stopped, done = obs
        _it, ev = ans.split(" ")
        ev = [] if ev == "-" else ev.split(",")
        # a trailing cancel-in-sleep at attempts=0 sends nothing in the model and here
        want_sends = ev.count("send")
        want_closes = 1 if ("failure" in ev or "finish" in ev) else 0
        ctx.case(["mrp-real", default_r, sc], "failure" in ev or "finish" in ev,
                 sample={"variant": "mrp-real", "script": sc, "sends": n_sends, "closes": n_closes})
        ctx.validated()
        if (n_sends, n_closes) != (want_sends, want_closes):
            ctx.disagree({"variant": "mrp-real", "script": sc}, f"sends={n_sends} closes={n_closes}",
                         f"sends={want_sends} closes={want_closes} ({ans})", where="mrp-real keep-alives sent / connection.close calls")
        # direct oracle (property text): a stop() never reports a failure => exactly the one
        # close() of stop() itself; a dead connection is reported (closed) exactly once
        if stopped and n_closes != 1:
            ctx.fail("mrp-real:close-count-after-stop", {"variant": "mrp-real", "retries": default_r, "script": sc},
                     f"connection.close() called {n_closes} times", "exactly once (by stop() itself)",
                     "stopping while a keep-alive is outstanding reported a connection failure")
        if not stopped and n_closes > 1:
            ctx.fail("mrp-real:failure-reported-twice", {"variant": "mrp-real", "retries": default_r, "script": sc},
                     f"connection.close() called {n_closes} times", "at most once", "dead connection reported more than once")

    answers = ctx.lean([f"run {r} {s.replace('O', 'o').replace('F', 'f') or '-'}" for (_v, r, s, _e, _i, _w) in results])
    for (variant, r, s, events, consumed, whole), ans in zip(results, answers):
        base = variant.split(":")[0]
        ctx.note("variant:" + variant)
        ctx.note("len:%d" % len(s))
        term = next((ch for ch in s if ch in "sc"), None)
        nontrivial = ("failure" in events or "finish" in events) and len(events) > 2
        ctx.case([variant, r, s, whole if base in ("pair", "ap2x2") else ""], nontrivial, sample={"variant": variant, "retries": r, "script": s, "events": events})
        ctx.note("end:" + (events[-1] if events and events[-1] in ("failure", "finish") else "running"))
        model_iter, model_events = ans.split(" ")
        model_events = [] if model_events == "-" else model_events.split(",")
        if variant in ("mrp", "mrpdebug"):
            model_events = [e for e in model_events if e != "finish"]  # MRP has no finish callback
        impl = f"{consumed} {','.join(events) or '-'}"
        case = {"variant": base, "retries": r, "script": whole if base in ("pair", "ap2x2") else s}
        if model_events != events or int(model_iter) != consumed:
            ctx.disagree(dict(case, loop=variant, own_script=s), impl, ans, where="heartbeater events")
        ctx.validated()
        for what in oracle(r, s.replace("O", "o").replace("F", "f"), events, "mrp" if variant in ("mrp", "mrpdebug") else "plain"):
            ctx.fail(f"{base}:{what.split(' ')[0]}", dict(case, loop=variant, own_script=s),
                     events, "see property C19", what)


def replay(ctx, failure):
    case = failure["case"]
    c2 = type(ctx)(ctx.prop, ctx.tier, ctx.seed, ctx.driver.driver_rel)
    run(c2, only=[(case["variant"], case["retries"], case["script"])])
    return bool(c2.failures)
