"""C03 — correspondence + direct oracle for the four request/response matchers.

Real code driven (in-process, under harness.core.vloop virtual time):
  mrp        pyatv.protocols.mrp.protocol.MrpProtocol   fake AbstractMrpConnection, real protobuf
             ProtocolMessages fed into message_received, sync + async listen_to() subscribers
  companion  pyatv.protocols.companion.protocol.CompanionProtocol   fake connection, real OPACK
             frames fed into frame_received, a real listener object (event_received)
  http       pyatv.support.http.HttpConnection   fake transport, bytes fed to data_received
  rtsp       pyatv.support.rtsp.RtspSession on a real HttpConnection (fake transport)

A script is a list of events `s` (a caller starts a request), `b` (Companion: send_opack
without waiter, consumes an XID), `r<key|n>:<payload>` (a message arrives), `t<r>` (the
timer of request r fires).  After every event the loop runs until idle; what is observed
per event (wire identifiers, caller outcomes, listener deliveries) is compared with the Lean
driver (`keyed …` / `fifo …` / `rtsp …`).  Independently the oracle evaluates the property
text on the observations (no model involved).
"""
import asyncio
import contextvars
import itertools
import logging

RULE = ("per transport (mrp, companion, http, rtsp): every interleaving of 2 requests with optional response / "
        "timeout per request, the second request optionally re-sending the object of the first (MRP/Companion), and an optional "
        "device-originated message in every (kind, identifier) variant: response/event/other x none/unknown/identifier of "
        "request 0/1 (collisions with outstanding, completed and abandoned requests); for 3 (thorough: also 4) requests every "
        "permutation of the responses x an unsolicited message at every position x a timeout of every request at "
        "every position, in two send layouts (all first / staggered); plus 1000 (thorough: 8000) random scripts per transport with up to 5 requests "
        "(duplicates, unknown and not-yet-allocated identifiers, Companion XID burns) from ctx.rng. "
        "a request whose transmission raises (F: connection.send / transport.write / send processor) at every position "
        "of the 2-request scripts without device-originated message, randomly elsewhere; "
        "scripted listeners raise on their k-th call or always (plain, coroutine, bound method; the witness too); "
        "a fifth transport `tunnel` = MRP over the AirPlay data stream (real DataStreamChannel.handle_received, "
        "decode_protobufs, AirPlayMrpConnection) with 1..3 messages per data-stream frame; per transport 120 (thorough: "
        "1500) PAIRS of protocol objects alive at once with the same identifiers in flight, their random scripts "
        "interleaved at random, each judged on its own; "
        "the segmentation of the device's message stream varies per script on every transport: one message per "
        "read, as many consecutive messages as possible in one read, or 1..3 at random (HTTP/RTSP: the read "
        "concatenated byte-wise and additionally cut into segments of 1 / 7 / 40 bytes; MRP/Companion: consecutive "
        "hand-overs without a loop run; tunnel: one data-stream frame); 2-request HTTP/RTSP scripts run both ways; "
        "MRP/tunnel: a request matched by message TYPE (generate_identifier=False, at most one per script) next to "
        "identifier-matched ones, in every 2-request script without / with an identifier-carrying message of that "
        "type (unknown identifier, each request's own identifier: late answers) and in 20% of the random sends; "
        "MRP listener sets vary per script (the unfiltered witness on every type plus up to 5 subscriptions: several "
        "listeners per type, the same function / bound method / coroutine subscribed repeatedly for one type with "
        "disjoint filters, the same callable on several types); plus 400 (thorough: 4000) bare MessageDispatcher cases "
        "(random subscription set x up to 6 messages, types without subscribers included) against the `disp` model. "
        "non-trivial = at least 2 requests outstanding at once and (a response out of send order, a timeout, or a "
        "message that answers no outstanding request), dispatcher cases: a callable subscribed more than once; "
        "distinct = (transport, base, script, subscriptions)")
ASSUMPTIONS = [
    "event granularity: the event loop runs until idle between two environment events (a response and a timer "
    "expiry never race inside one loop iteration)",
    "MRP `type_N` pseudo identifiers are used one at a time by protocol design: at most one type-matched request "
    "per script, so its pseudo identifier is a fresh key like any other (spelt `no identifier + message type` on "
    "the wire; other identifier-less messages use other types); Companion auth frames are not generated",
    "uuid4 identifiers are pairwise distinct (abstracted as a fresh counter per send in the model; two waiting "
    "requests sharing a wire identifier are reported by the oracle)",
    "MRP fixes no response type: a ProtocolMessage of any type carrying the identifier of a waiting request is its "
    "answer; Companion: only a response frame (`_t`=3) can answer, an event or device request never does",
    "plain HTTP: the device answers the requests it received in order, each once; RTSP: only 2xx responses",
    "stop()/close() racing with waiters is outside the quantifier",
    "two messages for one identifier are never put into ONE read (below event granularity); MRP and Companion reads "
    "are k consecutive message_received / frame_received calls (what their connection classes do for one "
    "data_received), the byte framing below is C02's",
    "tunnel: two messages for one identifier are never put into ONE data-stream frame (below event granularity); "
    "HAP encryption of the data channel is bypassed (frames enter at channel.buffer / leave at channel.send)",
    "Companion responses that answer no outstanding request have no subscribers (only events can be listened "
    "to); they must merely not reach another caller",
]
TRUSTED = [
    "harness/c03.py fakes (MRP connection, Companion connection, asyncio transport), the per-request timeout "
    "injection (timeout= argument; for RtspSession the HttpConnection.send_and_receive timeout and the "
    "async_timeout.timeout(4) of pyatv.support.rtsp are replaced by the scripted deadline)",
    "harness.core.vloop virtual-time loop",
]

PROPS_FILES = ["PyatvModel/Props/C03.lean", "PyatvModel/Props/C03Rtsp.lean", "PyatvModel/Props/C03Disp.lean",
               "PyatvModel/Props/C03Pair.lean", "PyatvModel/Props/C03Reads.lean"]
KNOWN_SIG = "http-fifo:late-response-after-timeout"
HTTP_WITNESS = "s,t0,s,rn:0"           # = PyatvModel.Props.C03.C03_http_counterexample
TRANSPORTS = ["mrp", "companion", "http", "rtsp", "tunnel"]


def proto(transport):
    """the tunnel is the MRP protocol on another connection class"""
    return "mrp" if transport == "tunnel" else transport

SETTLE = 50
CUR = contextvars.ContextVar("c03_request", default=None)
FAILED = 1000           # caller ids of requests whose transmission is made to raise


# ------------------------------------------------------------------------------ scripts

MSG = ("r", "e", "o", "x")   # "x" (MRP): a message of the type used by TYPE-matched requests; response / event / other non-response (Companion `_t`; MRP: message type)
SENDS = ("s", "S", "T")  # "T" (MRP): a request matched by message type (generate_identifier=False); new request object / re-send of the object of an earlier request


def tok(e):
    if e[0] == "s":
        return "s"
    if e[0] == "S":
        return "S%d" % e[1]
    if e[0] in ("b", "F", "T"):
        return e[0]
    if e[0] == "t":
        return "t%d" % e[1]
    return "%s%s:%d" % (e[0], "n" if e[1] is None else e[1], e[2])


def untok(t):
    if t == "s":
        return ("s",)
    if t in ("b", "F", "T"):
        return (t,)
    if t[0] == "S":
        return ("S", int(t[1:]))
    if t[0] == "t":
        return ("t", int(t[1:]))
    k, v = t[1:].split(":")
    return (t[0], None if k == "n" else int(k), int(v))


def show(events):
    return ",".join(tok(e) for e in events) or "-"


def parse(script):
    return [] if script == "-" else [untok(t) for t in script.split(",")]


def model_tok(transport, e):
    """the model allocates a fresh key on every send whatever object is sent (that is what the
    pinned code does); MRP does not look at the message type"""
    if e[0] in ("S", "T"):
        # a type-matched request is the only one of its type at a time (protocol design), so its
        # pseudo identifier `type_N` is a fresh key like any other; on the wire that key is spelt
        # "no identifier, message type N"
        return "s"
    if proto(transport) == "mrp" and e[0] in ("e", "o", "x"):
        return tok(("r", e[1], e[2]))
    return tok(e)


def model_line(transport, base, events):
    s = ",".join(model_tok(transport, e) for e in events) or "-"
    transport = proto(transport)
    if transport == "mrp":
        return "keyed 1 1 0 %d %s" % (base, s)
    if transport == "companion":
        return "keyed 0 0 1 %d %s" % (base, s)
    if transport == "http":
        return "fifo " + s
    return "rtsp " + s


def script_keys(base, events):
    """identifier of every request as the protocol rule allocates them: a fresh one per send
    (uuid4 abstracted as a counter), Companion burns consume one"""
    keys, nkey = [], base
    for e in events:
        if e[0] in SENDS:
            keys.append(nkey)
            nkey += 1
        elif e[0] in ("b", "F"):   # a failed send consumes its identifier too (uuid / XID / CSeq)
            nkey += 1
    return keys


def reads_spec(transport, evs, rng, mode=None):
    """`#sizes#chunk`: how many consecutive messages of the device arrive in ONE read (tunnel: in one
    data-stream frame): one per read, as many as possible, or 1..3 at random; byte transports
    (HTTP, RTSP): the read additionally arrives in segments of `chunk` bytes"""
    n = sum(1 for e in evs if e[0] in MSG)
    mode = mode or rng.choice(["one", "one", "all", "rand", "rand"])
    if mode == "one" or n < 2:
        sizes = ""
    elif mode == "all":
        sizes = ",".join(["9"] * n)
    else:
        sizes = ",".join(str(rng.randint(1, 3)) for _ in range(n))
    chunk = rng.choice([0, 0, 0, 1, 7, 40]) if transport in ("http", "rtsp") else 0
    return "#%s#%s" % (sizes, chunk or "")


def frame_plan(events, sizes):
    """tunnel: which consecutive message events travel in one data-stream frame.  `sizes` = wanted
    frame sizes in order; a frame also ends at any other event and before a message carrying an
    identifier already present in it (two messages for one identifier in ONE frame are below the
    event granularity of the model).  Returns for every event the index of the last event of its
    frame (None for non-messages)."""
    sizes = list(sizes)
    groups, cur, want = [], [], 0
    for i, e in enumerate(events):
        if e[0] in MSG:
            if cur and len(cur) < want and (e[1] is None or all(events[j][1] != e[1] for j in cur)):
                cur.append(i)
            else:
                if cur:
                    groups.append(cur)
                cur, want = [i], (sizes.pop(0) if sizes else 1)
        elif cur:
            groups.append(cur)
            cur = []
    if cur:
        groups.append(cur)
    last = [None] * len(events)
    for g in groups:
        for i in g:
            last[i] = g[-1]
    return last


def regroup(events, steps, last, by_payload=True):
    """observations of a read are made when its last message was handed over (or, with another
    connection running in the same loop, somewhere in between): collect them per read and give
    every delivery / listener call back to the message (payload) it is about.  RTSP may return a
    response later than it arrived: there everything of a read stays at its last message."""
    steps = [list(s) for s in steps]
    groups = {}
    for i, l in enumerate(last):
        if l is not None and l < len(steps) and i < len(steps):
            groups.setdefault(l, []).append(i)
    for l, members in groups.items():
        if len(members) < 2:
            continue
        pool = [t for i in members for t in steps[i]]
        for i in members:
            steps[i] = []
        owner = {events[i][2]: i for i in members}
        for t in pool:
            if by_payload and t[0] in ("dlv", "dsp") and t[3] in owner:
                steps[owner[t[3]]].append(t)
            else:
                steps[l].append(t)
    return steps


def merge_model(model, last):
    """RTSP: the model's outputs of the events of one read, taken together"""
    model = [list(s) for s in model]
    for i, l in enumerate(last):
        if l is not None and l != i and l < len(model) and i < len(model):
            model[l] = sorted(model[l] + model[i])
            model[i] = []
    return model


def resp(transport, base, i):
    """the device's answer to request i (keys: allocation order, no burns in structured scripts)"""
    return ("r", None if transport == "http" else base + i, i)


def kinds(transport):
    return {"mrp": ("r", "e"), "companion": ("r", "e", "o")}.get(proto(transport), ("r",))


def uvariants(transport, base, n):
    """(kind, identifier) of a message the device sends on its own: no identifier, one never
    issued, and one COLLIDING with the identifier of each request of the script"""
    if transport == "http":
        return [("r", None)]
    own = [base + i for i in range(n)]
    out = [("r", k) for k in [None, base + 900] + own]
    if proto(transport) == "mrp":          # the type is not looked at: collisions only
        out += [("e", k) for k in own]
        # identifier-carrying messages of the type a TYPE-matched request waits for
        out += [("x", k) for k in [base + 900] + own]
    if transport == "companion":
        out += [("e", k) for k in [None, base + 900] + own] + [("o", k) for k in [None] + own[:1]]
    return out


def interleavings2(transport, base):
    """every interleaving of 2 requests, each optionally answered and/or timed out, plus an
    optional message the device sends on its own in every (kind, identifier) variant
    (HTTP: answers in request order; unsolicited only when idle); for MRP/Companion also with
    the second request re-sending the object of the first."""
    atoms_all = ["r0", "t0", "r1", "t1", "u"]
    out = []
    for mask in range(1 << len(atoms_all)):
        atoms = ["s0", "s1"] + [a for i, a in enumerate(atoms_all) if mask >> i & 1]
        for order in itertools.permutations(atoms):
            pos = {a: i for i, a in enumerate(order)}
            if pos["s0"] > pos["s1"]:
                continue
            if any(a[0] in "rt" and pos[a] < pos["s" + a[1]] for a in atoms):
                continue
            if transport == "http":
                if "r0" in pos and "r1" in pos and pos["r1"] < pos["r0"]:
                    continue
                if "r1" in pos and "r0" not in pos:
                    continue
                if "u" in pos:
                    # device idle: everything sent so far has been answered
                    sent = sum(1 for a in ("s0", "s1") if pos[a] < pos["u"])
                    ans = sum(1 for a in ("r0", "r1") if a in pos and pos[a] < pos["u"])
                    if sent != ans:
                        continue
            uvs = uvariants(transport, base, 2) if "u" in pos else [None]
            resend = (False, True) if proto(transport) in ("mrp", "companion") else (False,)
            for uv in uvs:
                for rs in resend:
                    if rs and uv is not None and uv != uvs[0]:
                        continue
                    evs = []
                    for a in order:
                        if a == "s1" and rs:
                            evs.append(("S", 0))
                        elif a[0] == "s":
                            evs.append(("s",))
                        elif a[0] == "r":
                            evs.append(resp(transport, base, int(a[1])))
                        elif a[0] == "t":
                            evs.append(("t", int(a[1])))
                        else:
                            evs.append((uv[0], uv[1], 100))
                    out.append(evs)
                    if proto(transport) == "mrp" and not rs and (uv is None or uv[0] == "x"):
                        # request 0 / request 1 matched by message TYPE instead of by identifier,
                        # next to an identifier-matched one
                        for which in (0, 1):
                            seen = -1
                            tv = []
                            for e in evs:
                                if e[0] == "s":
                                    seen += 1
                                    tv.append(("T",) if seen == which else e)
                                else:
                                    tv.append(e)
                            out.append(tv)
                    if uv is None and not rs:
                        # a request whose transmission raises, at every position
                        for i in range(len(evs) + 1):
                            out.append(evs[:i] + [("F",)] + evs[i:])
    return out


def structured(transport, base, n, rng):
    """permutations of the responses x a device-originated message (random kind / identifier
    variant, collisions included) at every position x a timeout of every request at every
    position; sends all first, and one staggered layout per script in which a send may re-send
    the object of an earlier request."""
    out = []
    perms = [tuple(range(n))] if transport == "http" else list(itertools.permutations(range(n)))
    uvs = uvariants(transport, base, n)
    for perm in perms:
        tail0 = [resp(transport, base, i) for i in perm]
        for upos in [None] + list(range(len(tail0) + 1)):
            if transport == "http" and upos is not None and upos != len(tail0):
                continue
            tail1 = list(tail0)
            if upos is not None:
                kd, k = rng.choice(uvs)
                tail1.insert(upos, (kd, k, 100 + upos))
            for tmo in [None] + [(r, p) for r in range(n) for p in range(len(tail1) + 1)]:
                tail = list(tail1)
                if tmo is not None:
                    tail.insert(tmo[1], ("t", tmo[0]))
                out.append([("s",)] * n + tail)
                # staggered: every send somewhere before the first event that mentions its request
                first = [min([j for j, e in enumerate(tail) if (e[0] == "t" and e[1] == i) or
                              (e[0] == "r" and e[2] == i)] + [len(tail)]) for i in range(n)]
                upper = [min(first[i:]) for i in range(n)]
                slots, lo = [], 0
                for i in range(n):
                    lo = rng.randint(lo, upper[i])
                    slots.append(lo)
                evs, nsent = [], 0
                for j in range(len(tail) + 1):
                    for _ in range(slots.count(j)):
                        if nsent and proto(transport) in ("mrp", "companion") and rng.chance(0.3):
                            evs.append(("S", rng.randrange(nsent)))
                        else:
                            evs.append(("s",))
                        nsent += 1
                    if j < len(tail):
                        evs.append(tail[j])
                if transport == "http" and not http_script_ok(evs):
                    continue
                if rng.chance(0.25):
                    evs.insert(rng.randint(0, len(evs)), ("F",))
                out.append(evs)
    return out


def http_script_ok(evs):
    """HTTP device discipline: i-th answer is for request i; extra responses only when idle"""
    sent = ans = 0
    for e in evs:
        if e[0] in SENDS:
            sent += 1
        elif e[0] == "r":
            if e[2] >= 100:
                if sent != ans:
                    return False
            else:
                if e[2] != ans or ans >= sent:
                    return False
                ans += 1
    return True


def random_script(transport, base, rng, nmax=5, maxlen=18):
    n = rng.randint(2, nmax)
    evs, keys = [], []
    nkey = base
    answered, timed = set(), set()
    uns = dup = 0
    http_ans = 0
    while len(evs) < maxlen:
        choices = []
        if len(keys) < n:
            choices += ["s"] * 4
        sent = len(keys)
        if transport == "http":
            if http_ans < sent:
                choices += ["r"] * 4
            else:
                choices += ["u"]
        else:
            if len(answered) < sent:
                choices += ["r"] * 4
            if answered:
                choices += ["d"]
            choices += ["u"] * 2
        if sent - len(timed) > 0:
            choices += ["t"] * 2
        if transport == "companion":
            choices += ["b"]
        choices += ["F"]
        if len(keys) == n and len(answered) == n and rng.chance(0.5):
            break
        c = rng.choice(choices)
        if c == "s":
            if keys and proto(transport) in ("mrp", "companion") and rng.chance(0.3):
                evs.append(("S", rng.randrange(len(keys))))   # same request object again
            elif proto(transport) == "mrp" and ("T",) not in evs and rng.chance(0.2):
                evs.append(("T",))                            # matched by message type (one at a time)
            else:
                evs.append(("s",))
            keys.append(nkey)
            nkey += 1
        elif c == "b":
            nkey += 1
            evs.append(("b",))
        elif c == "F":
            nkey += 1
            evs.append(("F",))
        elif c == "r":
            if transport == "http":
                evs.append(("r", None, http_ans))
                answered.add(http_ans)
                http_ans += 1
            else:
                i = rng.choice([i for i in range(sent) if i not in answered])
                answered.add(i)
                evs.append(("r", keys[i], i))
        elif c == "d":
            i = rng.choice(sorted(answered))
            evs.append(("r", keys[i], 50 + dup))
            dup += 1
        elif c == "u":
            kd = rng.choice(kinds(transport))
            sel = rng.randint(0, 3)
            if transport == "http" or sel == 0:
                k = None
            elif sel == 1:
                k = base + 900 + uns        # never allocated
            elif sel == 2 and keys and kd != "r":
                k = rng.choice(keys)        # collides with an outstanding / completed / abandoned request
            elif proto(transport) == "mrp":
                k = base + 900 + uns
            else:
                k = nkey + rng.randint(0, 1)  # not yet allocated (a later request may get it)
            evs.append((kd, k, 100 + uns))
            uns += 1
        else:
            i = rng.choice([i for i in range(sent) if i not in timed])
            timed.add(i)
            evs.append(("t", i))
    return evs


def is_perm_script(transport, base, evs):
    """all sends first, then exactly one response per request (keys = allocation order)"""
    n = sum(1 for e in evs if e[0] == "s")
    if any(e[0] != "s" for e in evs[:n]) or len(evs) != 2 * n:
        return False
    return sorted(map(repr, evs[n:])) == sorted(repr(resp(transport, base, i)) for i in range(n))


# ------------------------------------------------------------------------------ subscriptions

DEFAULT_SUBS = "0.0.a,1.0.a,2.0.a,3.0.a,0.2.a,1.2.a,2.2.a,3.2.a"
NTYPES = 4
# callables: 0 = plain function (the unfiltered witness), 1 = plain function, 2 = coroutine
# function, 3 = bound method, 4 = bound coroutine method (a fresh bound-method object is made for
# every listen_to call: equal and hash-equal, not identical)
NCALLABLES = 5


def split_subs(text):
    """`subscriptions|raising` -> (subscriptions text, {callable: k | "a"}): callable lid raises on
    its k-th call (counted over the whole script) or on every call"""
    main, _, rz = (text or "-").partition("|")
    raising = {}
    for t in ([] if not rz else rz.split(",")):
        lid, k = t.split(":")
        raising[int(lid)] = "a" if k == "a" else int(k)
    return main, raising


def parse_subs(text):
    out = []
    text = split_subs(text)[0]
    for t in ([] if text in ("", "-") else text.split(",")):
        ty, lid, f = t.split(".")
        out.append((int(ty), int(lid), f))
    return out


def accepts(f, v):
    if f == "a":
        return True
    d, r = f[1:].split("r")
    return v % int(d) == int(r)


def expected_calls(subs, ty, v):
    """the property: one call per subscription of this type whose filter accepts the message"""
    return sorted(lid for (t, lid, f) in subs if t == ty and accepts(f, v))


def random_subs(rng, witness=True):
    """listener sets: the witness on every type, several listeners per type, the same callable
    subscribed more than once for one type with different (disjoint) filters, plain / coroutine /
    bound-method callables, the same callable on several types"""
    subs = [(t, 0, "a") for t in range(NTYPES)] if witness else []
    used = {}
    for _ in range(rng.randint(0, 5)):
        if used and rng.chance(0.5):
            ty, lid = rng.choice(sorted(used))          # the same callable again
        else:
            ty, lid = rng.randrange(NTYPES), rng.randint(1, NCALLABLES - 1)
        res = used.setdefault((ty, lid), set())
        if "a" in res or len(res) == 3:
            continue
        free = [r for r in range(3) if r not in res]
        if not res and rng.chance(0.3):
            res.add("a")
            subs.append((ty, lid, "a"))
        else:
            r = rng.choice(free)
            res.add(r)
            subs.append((ty, lid, "m3r%d" % r))
    rng.shuffle(subs)
    text = ",".join("%d.%d.%s" % x for x in subs) or "-"
    if subs and rng.chance(0.5):
        # scripted listeners that raise: on the k-th call or always
        lids = sorted(set(l for _t, l, _f in subs))
        rz = ["%d:%s" % (l, rng.choice(["1", "2", "a"])) for l in lids if rng.chance(0.5)]
        if rz:
            text += "|" + ",".join(rz)
    return text


class ListenerFault(RuntimeError):
    pass


class SendFault(OSError):
    pass


class Callables:
    """the pool of listener callables; every call is reported as record(lid, message)"""

    def __init__(self, report, raising=None):
        raising = raising or {}
        count = {}

        def record(lid, message):
            report(lid, message)          # the call is observed, then the listener may raise
            count[lid] = count.get(lid, 0) + 1
            if raising.get(lid) in ("a", count[lid]):
                raise ListenerFault("listener %d raises on call %d" % (lid, count[lid]))

        def plain0(message):
            record(0, message)

        def plain1(message):
            record(1, message)

        async def coro2(message):
            record(2, message)

        class Obj:
            def h(self, message):
                record(3, message)

            async def ah(self, message):
                record(4, message)

        self.obj = Obj()
        self.funcs = {0: plain0, 1: plain1, 2: coro2}

    def get(self, lid):
        if lid == 3:
            return self.obj.h
        if lid == 4:
            return self.obj.ah
        return self.funcs[lid]


async def run_disp(subs_text, msgs_text):
    """a bare MessageDispatcher: subscriptions, then one dispatch per message"""
    from pyatv.core.protocol import MessageDispatcher

    calls = []
    cur = []
    cs = Callables(lambda lid, message: cur.append(lid), split_subs(subs_text)[1])
    d = MessageDispatcher()
    for ty, lid, f in parse_subs(subs_text):
        if f == "a":
            d.listen_to(ty, cs.get(lid))
        else:
            d.listen_to(ty, cs.get(lid), (lambda ff: lambda m: accepts(ff, m))(f))
    for m in msgs_text.split(","):
        ty, v = (int(x) for x in m.split("."))
        cur = []
        calls.append(cur)
        try:
            d.dispatch(ty, v)
        except Exception as ex:
            cur.append("raised:" + type(ex).__name__)
        await settle()
    return calls


# ------------------------------------------------------------------------------ adapters

class Obs:
    def __init__(self):
        self.steps = []
        self.cur = []

    def begin(self):
        self.cur = []
        self.steps.append(self.cur)

    def add(self, *t):
        self.cur.append(tuple(t))


class MrpAdapter:
    def __init__(self, obs, base, subs=DEFAULT_SUBS):
        from pyatv.protocols.mrp import messages, protobuf
        from pyatv.protocols.mrp import protocol as mp

        self.obs, self.base, self.keys = obs, base, []
        self.fail_next = 0
        self.nsent = 0
        self.messages, self.protobuf = messages, protobuf
        self.objects, self.type_of = {}, {}
        adapter = self

        class Conn:
            listener = None

            def send(self, message):
                ident = adapter.wire_identifier(message)
                if adapter.fail_next:
                    adapter.fail_next = 0
                    raise SendFault("connection.send raises")
                adapter.obs.add("snt", adapter.nsent, adapter.mkey(ident))
                adapter.nsent += 1

            def close(self):
                adapter.obs.add("closed")

            def __str__(self):
                return "verif"

        self.prot = mp.MrpProtocol(self.make_connection(Conn), None, None, None)
        self.prot._state = mp.ProtocolState.READY
        self.types = [protobuf.GENERIC_MESSAGE, protobuf.SET_STATE_MESSAGE, protobuf.VOLUME_DID_CHANGE_MESSAGE,
                      protobuf.PLAYBACK_QUEUE_REQUEST_MESSAGE]
        self.subs = parse_subs(subs)
        self.subs_text = subs
        self.callables = Callables(lambda lid, message: adapter.obs.add(
            "dsp", lid, adapter.message_key(message), adapter.payload(message)), split_subs(subs)[1])
        for ty, lid, f in self.subs:
            if f == "a":
                self.prot.listen_to(self.types[ty], self.callables.get(lid))
            else:
                self.prot.listen_to(self.types[ty], self.callables.get(lid),
                                    (lambda ff: lambda m: accepts(ff, adapter.payload(m)))(f))

    def make_connection(self, conn_class):
        return conn_class()

    def expected_listeners(self, k, v):
        return expected_calls(self.subs, self.type_of.get(v, 0), v)

    def payload(self, message):
        try:
            return int(message.uniqueIdentifier.split("-")[0])
        except ValueError:
            return -1

    def wire_identifier(self, message):
        """what identifies this transmission: its identifier, or for a type-matched request the
        pseudo identifier (spelt "no identifier + message type" on the wire)"""
        ident = message.identifier or "TYPEKEY-%d-%d" % (message.type, len(self.keys))
        self.keys.append(ident)
        return ident

    def message_key(self, message):
        """the key a received message carries: its identifier, else (message of the type a
        type-matched request was sent for) that request's pseudo identifier"""
        if message.identifier:
            return self.mkey(message.identifier)
        mine = [k for k in self.keys if k.startswith("TYPEKEY-%d-" % message.type)]
        return self.mkey(mine[-1]) if mine else None

    def mkey(self, identifier):
        if not identifier:
            return None
        if identifier in self.keys:
            return self.base + self.keys.index(identifier)
        if identifier.startswith("UNALLOCATED-"):
            return int(identifier.split("-")[1])
        return -1

    def real(self, k):
        if k is None:
            return None
        i = k - self.base
        return self.keys[i] if 0 <= i < len(self.keys) else "UNALLOCATED-%d" % k

    async def request(self, r, timeout, obj=None):
        # obj = j: the very ProtocolMessage object of request j is sent again (as the heartbeat does)
        if obj == "T":
            # matched by message type, as the pairing / verify procedures do
            msg = self.messages.create(self.types[3])
            self.objects[r] = msg
            got = await self.prot.send_and_receive(msg, generate_identifier=False, timeout=timeout)
            return self.message_key(got), self.payload(got)
        msg = self.objects[obj] if obj is not None else self.messages.create(self.protobuf.GENERIC_MESSAGE)
        self.objects[r] = msg
        got = await self.prot.send_and_receive(msg, timeout=timeout)
        return self.mkey(got.identifier), self.payload(got)

    def burn(self):
        raise RuntimeError("no burn in MRP")

    def build(self, kind, k, v):
        ti = MSG.index(kind)            # the message type; MRP matching does not look at it
        ident = self.real(k)
        if ident and ident.startswith("TYPEKEY-"):
            ti, ident = 3, None         # the answer to a type-matched request carries no identifier
        self.type_of[v] = ti
        msg = self.messages.create(self.types[ti], identifier=ident)
        # real messages are never shorter than 40 bytes (decode_protobufs relies on that)
        msg.uniqueIdentifier = "%d-%s" % (v, "0" * 36)
        return msg

    def recv(self, kind, k, v):
        self.prot.message_received(self.build(kind, k, v), None)


class TunnelAdapter(MrpAdapter):
    """MRP tunnelled over AirPlay: real DataStreamChannel.handle_received -> decode_protobufs ->
    AirPlayMrpConnection.handle_protobuf -> MrpProtocol.message_received; the device may put
    several MRP messages into one data-stream frame.  HAP encryption is bypassed: frames are put
    into channel.buffer, outgoing frames are taken at channel.send."""

    def make_connection(self, conn_class):
        from pyatv.protocols.airplay import channels
        from pyatv.protocols.airplay.mrp_connection import AirPlayMrpConnection

        adapter = self
        self.channels = channels
        self.channel = channels.DataStreamChannel(32 * b"\x01", 32 * b"\x02")
        self.channel.transport = FakeTransport(lambda data: None)
        self.seqno = 1

        def send(data):
            message, _, _ = channels.DataStreamChannel.decode_message(data)
            if message is None or not message.message_type.startswith(b"sync"):
                return                      # replies to the device's own frames
            payload = channels.DataStreamChannel.decode_payload(message.payload)
            for pb in channels.DataStreamChannel.decode_protobufs(payload["params"]["data"]):
                ident = adapter.wire_identifier(pb)
                if adapter.fail_next:
                    adapter.fail_next = 0
                    raise SendFault("data channel send raises")
                adapter.obs.add("snt", adapter.nsent, adapter.mkey(ident))
                adapter.nsent += 1

        self.channel.send = send

        class Session:
            data_channel = self.channel

        self.conn = AirPlayMrpConnection(Session())
        self.conn.data_channel = self.channel      # = connect()
        self.channel.listener = self.conn
        self.pending = []
        return self.conn

    def recv(self, kind, k, v, last=True):
        """queue the message; the frame goes to the channel with its last message"""
        self.pending.append(self.build(kind, k, v))
        if not last:
            return
        ch = self.channels
        msgs, self.pending = self.pending, []
        frame = ch.DataStreamChannel.encode_message(ch.DataStreamMessage(
            b"sync" + 8 * b"\x00", b"comm", self.seqno, ch.DATA_HEADER_PADDING,
            ch.DataStreamChannel.encode_payload({"params": {"data": ch.DataStreamChannel.encode_protobufs(msgs)}})))
        self.seqno += 1
        self.channel.buffer += frame
        self.channel.handle_received()


class CompanionAdapter:
    def __init__(self, obs, base):
        from pyatv.protocols.companion import protocol as cp
        from pyatv.protocols.companion.connection import FrameType
        from pyatv.support import opack

        self.obs, self.base = obs, base
        self.fail_next = 0
        self.opack, self.FrameType = opack, FrameType
        self.nsent = 0
        self.objects = {}
        adapter = self

        class Conn:
            def set_listener(self, listener):
                self.listener = listener

            def send(self, frame_type, data):
                d, _ = opack.unpack(data)
                if d.get("_i") == "req" and adapter.fail_next:
                    adapter.fail_next = 0
                    raise SendFault("connection.send raises")
                if d.get("_i") == "req":
                    adapter.obs.add("snt", adapter.nsent, d.get("_x"))
                    adapter.nsent += 1

            def close(self):
                adapter.obs.add("closed")

        class Listener:
            def event_received(self, name, data):
                adapter.obs.add("dsp", ("event", 0), None, data.get("v", -1) if isinstance(data, dict) else -1)

        self.prot = cp.CompanionProtocol(Conn(), None, None)
        self.prot._xid = base
        self.listener = Listener()
        self.prot.listener = self.listener

    def expected_listeners(self, k, v):
        return [("event", 0)]

    async def request(self, r, timeout, obj=None):
        # obj = j: the very dict object of request j (it already carries that request's `_x`)
        data = self.objects[obj] if obj is not None else {"_i": "req", "_t": 2, "_c": {"r": r}}
        self.objects[r] = data
        got = await self.prot.exchange_opack(self.FrameType.E_OPACK, data, timeout=timeout)
        return got.get("_x"), got.get("_c", {}).get("v", -1)

    def burn(self):
        self.prot.send_opack(self.FrameType.E_OPACK, {"_i": "evt-out", "_t": 1, "_c": {}})

    def recv(self, kind, k, v):
        if kind == "e":
            data = {"_i": "evt", "_t": 1, "_c": {"v": v}}
        elif kind == "r":
            data = {"_t": 3, "_c": {"v": v}}
        elif v % 2:
            data = {"_i": "req-from-device", "_t": 2, "_c": {"v": v}}
        else:
            data = {"_i": "untyped", "_c": {"v": v}}
        if k is not None:
            data["_x"] = k          # every kind may carry a transaction id field
        self.prot.frame_received(self.FrameType.E_OPACK, self.opack.pack(data))


class FakeTransport:
    def __init__(self, on_write):
        self.on_write = on_write

    def write(self, data):
        self.on_write(data)

    def close(self):
        pass

    def get_extra_info(self, name, default=None):
        return default


class HttpAdapter:
    def __init__(self, obs, base):
        from pyatv.support.http import HttpConnection

        self.obs = obs
        self.nsent = 0
        self.fail_next = 0
        self.conn = HttpConnection(send_processor=self.processor)
        self.conn.transport = FakeTransport(self.on_write)

    def processor(self, data):
        if self.fail_next == 2:
            self.fail_next = 0
            raise SendFault("send processor raises")
        return data

    def on_write(self, data):
        if self.fail_next == 1:
            self.fail_next = 0
            raise SendFault("transport.write raises")
        self.obs.add("snt", self.nsent, self.nsent)
        self.nsent += 1

    def expected_listeners(self, k, v):
        return []

    async def request(self, r, timeout, obj=None):
        got = await self.conn.send_and_receive("GET", "/req%d" % r, timeout=timeout)
        body = got.body if isinstance(got.body, str) else bytes(got.body).decode()
        return None, int(body.split("-")[1])

    def burn(self):
        pass

    def encode(self, kind, k, v):
        if kind != "r":
            return b""          # HTTP / RTSP carry responses only
        body = b"resp-%d" % v
        return b"HTTP/1.1 200 OK\r\nContent-Length: %d\r\n\r\n" % len(body) + body

    def feed(self, data):
        self.conn.data_received(data)


class RtspAdapter:
    def __init__(self, obs, base, deadlines):
        import async_timeout

        from pyatv.support import rtsp as rtsp_mod
        from pyatv.support.http import HttpConnection

        self.obs = obs
        self.nsent = 0
        self.rtsp_mod = rtsp_mod
        adapter = self

        def remaining():
            dl, r = CUR.get()       # the session the running caller belongs to
            return dl[r] - asyncio.get_event_loop().time()

        class Conn(HttpConnection):
            async def send_and_receive(self, *a, **kw):
                kw["timeout"] = remaining()
                return await super().send_and_receive(*a, **kw)

        class TimeoutShim:
            def __getattr__(self, name):
                return getattr(async_timeout, name)

            @staticmethod
            def timeout(_delay):
                return async_timeout.timeout(remaining())

        self.fail_next = 0
        self.conn = Conn(send_processor=self.processor)
        self.conn.transport = FakeTransport(self.on_write)
        self.conn._local_ip = "127.0.0.1"
        self.conn._remote_ip = "127.0.0.2"
        self.session = rtsp_mod.RtspSession(self.conn)
        self.orig_async_timeout = rtsp_mod.async_timeout
        rtsp_mod.async_timeout = TimeoutShim()

    def restore(self):
        self.rtsp_mod.async_timeout = self.orig_async_timeout

    def processor(self, data):
        if self.fail_next == 2:
            self.fail_next = 0
            raise SendFault("send processor raises")
        return data

    def on_write(self, data):
        if self.fail_next == 1:
            self.fail_next = 0
            raise SendFault("transport.write raises")
        cseq = -1
        for line in data.split(b"\r\n\r\n")[0].split(b"\r\n")[1:]:
            if line.lower().startswith(b"cseq:"):
                cseq = int(line.split(b":")[1])
        self.obs.add("snt", self.nsent, cseq)
        self.nsent += 1

    def expected_listeners(self, k, v):
        return []

    async def request(self, r, timeout, obj=None):
        got = await self.session.exchange("OPTIONS", headers={"X-Req": r})
        body = got.body if isinstance(got.body, str) else bytes(got.body).decode()
        c = got.headers.get("CSeq")
        return (int(c) if c is not None else None), int(body.split("-")[1])

    def burn(self):
        pass

    def encode(self, kind, k, v):
        if kind != "r":
            return b""          # HTTP / RTSP carry responses only
        body = b"resp-%d" % v
        hdr = b"RTSP/1.0 200 OK\r\n"
        if k is not None:
            hdr += b"CSeq: %d\r\n" % k
        return hdr + b"Content-Length: %d\r\n\r\n" % len(body) + body

    def feed(self, data):
        self.conn.data_received(data)


# ------------------------------------------------------------------------------ execution

async def settle():
    """run the loop until idle: nothing is ready any more (timers do not fire by themselves
    under virtual time while something is ready or while we do not sleep)"""
    loop = asyncio.get_event_loop()
    for _ in range(SETTLE):
        if not loop._ready:
            break
        await asyncio.sleep(0)


class Sess:
    """one protocol / connection object of a transport running one script"""

    def __init__(self, transport, base, events, subs, t0, tdead):
        self.transport, self.events, self.tdead = transport, events, tdead
        self.loop = asyncio.get_event_loop()
        self.obs = obs = Obs()
        self.deadlines = deadlines = {}
        seen = ti = 0
        for e in events:
            if e[0] in SENDS:
                seen += 1
            if e[0] == "t":
                if e[1] < seen:  # a timer exists only once the request was made
                    deadlines.setdefault(e[1], tdead[ti])
                ti += 1
        for r in range(sum(1 for e in events if e[0] in SENDS)):
            deadlines.setdefault(r, t0 + 1.0e7)
        for i in range(sum(1 for e in events if e[0] == "F")):
            deadlines[FAILED + i] = t0 + 1.0e7
        obs.begin()
        orig_subs = subs
        subs, _, rest = (subs or "").partition("#")
        frames, _, chunk = rest.partition("#")
        self.chunk = int(chunk) if chunk else 0
        self.pending = b""
        if transport == "mrp":
            ad = MrpAdapter(obs, base, subs or DEFAULT_SUBS)
        elif transport == "tunnel":
            ad = TunnelAdapter(obs, base, subs or DEFAULT_SUBS)
        elif transport == "companion":
            ad = CompanionAdapter(obs, base)
        elif transport == "http":
            ad = HttpAdapter(obs, base)
        else:
            ad = RtspAdapter(obs, base, deadlines)
        if orig_subs:
            ad.subs_text = orig_subs
        self.ad = ad
        obs.steps.clear()
        self.plan = frame_plan(events, [int(x) for x in frames.split(",")] if frames else [])
        self.tasks, self.ftasks, self.ti = [], [], 0

    async def caller(self, r, obj):
        CUR.set((self.deadlines, r))
        obs = self.obs
        try:
            k, v = await self.ad.request(r, self.deadlines[r] - self.loop.time(), obj)
            obs.add("dlv", r, k, v)
        except asyncio.CancelledError:
            raise
        except (asyncio.TimeoutError, TimeoutError):
            obs.add("tmo", r)
        except Exception as ex:  # observation, never a crash
            obs.add("err", r, type(ex).__name__)

    async def failing_caller(self, fid):
        """a caller whose transmission raises; it is not one of the numbered requests"""
        CUR.set((self.deadlines, fid))
        obs = self.obs
        try:
            k, v = await self.ad.request(fid, 1.0e7, None)
            obs.add("fdlv", k, v)
        except asyncio.CancelledError:
            raise
        except SendFault:
            obs.add("serr")
        except Exception as ex:
            obs.add("ferr", type(ex).__name__)

    async def step(self, ei):
        e, ad, obs, tasks, ftasks = self.events[ei], self.ad, self.obs, self.tasks, self.ftasks
        obs.begin()
        try:
            if e[0] == "F":
                ad.fail_next = 1 + len(ftasks) % 2     # alternate the place of the fault
                ftasks.append(asyncio.ensure_future(self.failing_caller(FAILED + len(ftasks))))
            elif e[0] in SENDS:
                obj = e[1] if e[0] == "S" and e[1] < len(tasks) else ("T" if e[0] == "T" else None)
                tasks.append(asyncio.ensure_future(self.caller(len(tasks), obj)))
            elif e[0] == "b":
                ad.burn()
            elif e[0] in MSG and self.transport == "tunnel":
                ad.recv(e[0], e[1], e[2], last=self.plan[ei] == ei)
            elif e[0] in MSG and hasattr(ad, "encode"):
                # byte transports: the responses of one read are concatenated; the read may
                # itself arrive in several segments of `chunk` bytes
                self.pending += ad.encode(e[0], e[1], e[2])
                if self.plan[ei] == ei:
                    data, self.pending = self.pending, b""
                    size = self.chunk or len(data) or 1
                    for i in range(0, len(data), size):
                        ad.feed(data[i:i + size])
            elif e[0] in MSG:
                ad.recv(e[0], e[1], e[2])      # MRP / Companion: the connection hands the frames
                #                                of one read over in one go (no loop run between)
            else:
                d = self.tdead[self.ti]
                self.ti += 1
                await asyncio.sleep(d + 0.25 - self.loop.time())
        except Exception as ex:
            obs.add("raised", type(ex).__name__)
        if e[0] in MSG and self.plan[ei] != ei:
            return                     # more messages of the same read follow
        await settle()
        ad.fail_next = 0

    async def finish(self):
        self.obs.begin()  # anything after the last settle goes to an extra (unchecked) slot
        for t in self.tasks + self.ftasks:
            t.cancel()
        if self.tasks or self.ftasks:
            await asyncio.gather(*(self.tasks + self.ftasks), return_exceptions=True)
        await settle()
        if hasattr(self.ad, "restore"):
            self.ad.restore()

    def result(self):
        steps = regroup(self.events, self.obs.steps[:len(self.events)], self.plan,
                        by_payload=self.transport != "rtsp")
        self.ad.plan = self.plan
        return steps, self.ad


async def run_script(transport, base, events, subs=DEFAULT_SUBS):
    """Run one script on the real code; returns the per-event observations."""
    t0 = asyncio.get_event_loop().time()
    nt = sum(1 for e in events if e[0] == "t")
    sess = Sess(transport, base, events, subs, t0, [t0 + 1000.0 * (k + 1) for k in range(nt)])
    try:
        for ei in range(len(events)):
            await sess.step(ei)
    finally:
        await sess.finish()
    return sess.result()


async def run_pair(transport, base, info, subs):
    """TWO protocol / connection objects of one transport alive at once, identical identifiers in
    flight on each; their scripts interleaved as `order` says.  Each is observed separately."""
    t0 = asyncio.get_event_loop().time()
    scripts = {"A": info["a"], "B": info["b"]}
    rank, tdead, pos = 0, {"A": [], "B": []}, {"A": 0, "B": 0}
    for who in info["order"]:
        if scripts[who][pos[who]][0] == "t":
            rank += 1
            tdead[who].append(t0 + 1000.0 * rank)
        pos[who] += 1
    sess = {}
    try:
        sess["A"] = Sess(transport, base, scripts["A"], subs[0], t0, tdead["A"])
        sess["B"] = Sess(transport, base, scripts["B"], subs[1], t0, tdead["B"])
        pos = {"A": 0, "B": 0}
        for who in info["order"]:
            await sess[who].step(pos[who])
            pos[who] += 1
    finally:
        for who in ("B", "A"):
            if who in sess:
                await sess[who].finish()
    return sess["A"].result() + sess["B"].result()


def canon_step(ad, event, step):
    """observation of one event in the model's vocabulary (sorted tokens)"""
    out = []
    dsp = {}
    for t in step:
        if t[0] == "snt":
            out.append("snt:%d:%s" % (t[1], t[2]))
        elif t[0] == "dlv":
            out.append("dlv:%d:%s:%d" % (t[1], "n" if t[2] is None else t[2], t[3]))
        elif t[0] == "tmo":
            out.append("tmo:%d" % t[1])
        elif t[0] == "err":
            out.append("flt:%d" % t[1] if t[2] == "KeyError" else "err:%d:%s" % (t[1], t[2]))
        elif t[0] == "serr":
            out.append("ser")
        elif t[0] == "dsp":
            dsp.setdefault((t[2], t[3]), []).append(t[1])
        else:
            out.append(":".join(str(x) for x in t))
    for (k, v), lids in dsp.items():
        if sorted(lids) == sorted(ad.expected_listeners(k, v)):
            out.append("dsp:%s:%d" % ("n" if k is None else k, v))
        else:
            out.append("dsp:%s:%d#%s" % ("n" if k is None else k, v, sorted(lids)))
    return sorted(out)


def canon_model(answer, transport=None):
    if answer == "=":
        return []
    steps = []
    for s in answer.split(";"):
        toks = [] if s == "-" else [t for t in s.split(",") if not t.startswith("drp:")]
        if transport == "companion":
            # event_received(name, data) does not show the `_x` field to the listener
            toks = ["dsp:n:" + t.split(":")[2] if t.startswith("dsp:") else t for t in toks]
        steps.append(sorted(toks))
    return steps


# ------------------------------------------------------------------------------ the oracle

def oracle(transport, base, events, steps, ad, perm_script):
    """The property text evaluated on the observations of the real code.  Returns
    [(sig, what)].  Independent of the Lean model."""
    problems = []
    keyed = proto(transport) in ("mrp", "companion", "rtsp")
    wire = {}          # request -> identifier seen on the wire
    outcome = {}       # request -> (step, token)
    recv_at = {}       # payload -> (step, kind, key)
    skeys = script_keys(base, events)   # identifier of each request by the protocol's rule
    timer_fired = {}   # request -> step at which its timer fired while it was waiting
    nsent = 0
    cascade = False

    def add(kind, what, late=False):
        nonlocal cascade
        if transport == "http" and (late or cascade):
            cascade = True
            problems.append((KNOWN_SIG, what))
        else:
            problems.append(("%s:%s" % (transport, kind), what))

    def answers(kind, k, v):
        """which request does message (kind, k, v) answer, according to the protocol's rule:
        HTTP by order; RTSP / MRP the request that was given this identifier (MRP does not fix a
        response type); Companion only a response frame can answer — an event is not an answer"""
        if transport == "http":
            return v if v < 100 and kind == "r" else None
        if kind != "r" and proto(transport) != "mrp":
            return None
        return skeys.index(k) if k in skeys else None

    for si, (e, step) in enumerate(zip(events, steps)):
        waiting_before = {r for r in range(nsent) if r not in outcome}
        if e[0] in SENDS:
            r = nsent
            nsent += 1
            snt = [t for t in step if t[0] == "snt"]
            if len(snt) == 1:
                wire[r] = snt[0][2]
                clash = [q for q in waiting_before if wire.get(q) == snt[0][2]]
                if keyed and clash:
                    add("identifier-shared", "request %d was sent with identifier %s while request %s is waiting "
                        "with the same identifier" % (r, snt[0][2], clash))
        if e[0] in MSG:
            recv_at[e[2]] = (si, e[0], e[1])
        for t in step:
            if t[0] == "fdlv":
                add("misdelivery", "the caller whose send failed returned message %s (event %d)" % (t[2], si))
            if t[0] == "err" or t[0] == "raised":
                add("unexpected-error", "event %d (%s): %s" % (si, tok(e), t))
            if t[0] in ("dlv", "tmo", "err"):
                r = t[1]
                if r in outcome:
                    add("double-outcome", "caller %d completed twice: %s then %s" % (r, outcome[r][1], t))
                outcome.setdefault(r, (si, t))
            if t[0] == "tmo" and not (e[0] == "t" and e[1] == t[1]):
                add("spurious-timeout", "caller %d got a timeout error at event %d (%s)" % (t[1], si, tok(e)))
        # deliveries made at this step
        for t in step:
            if t[0] != "dlv":
                continue
            _, r, k, v = t
            if v not in recv_at:
                add("misdelivery", "caller %d returned a message (%s) that was never received" % (r, v))
                continue
            kind_sent, k_sent = recv_at[v][1], recv_at[v][2]
            own = answers(kind_sent, k_sent, v)
            late = transport == "http" and own is not None and own in timer_fired and timer_fired[own] < recv_at[v][0]
            if own != r:
                add("misdelivery", "caller %d (identifier %s) returned message %s%s:%d which answers %s"
                    % (r, skeys[r] if r < len(skeys) else None, kind_sent, k_sent, v,
                       "no request" if own is None else "request %d" % own), late=late)
        if e[0] in MSG:
            kind, k, v = e
            target = answers(kind, k, v)
            if target is not None and target not in waiting_before:
                target = None
            got = [t for t in step if t[0] == "dlv" and t[3] == v]
            lst = [t for t in step if t[0] == "dsp" and t[3] == v]
            if target is None:
                if proto(transport) == "mrp" or (transport == "companion" and kind == "e"):
                    want = sorted(ad.expected_listeners(k, v))
                    have = sorted(t[1] for t in lst)
                    if have != want:
                        add("unsolicited-not-dispatched-once", "message %s%s:%d answers no outstanding request; "
                            "listener deliveries %s, required once to each of %s" % (kind, k, v, have, want))
                if got:
                    pass  # already reported as misdelivery above
            else:
                if proto(transport) in ("mrp", "companion", "http") and not any(t[1] == target for t in got):
                    add("response-not-delivered", "message %s%s:%d answers waiting request %d but was not returned "
                        "to it (step: %s)" % (kind, k, v, target, step))
        if e[0] == "t":
            r = e[1]
            if r in waiting_before:
                timer_fired.setdefault(r, si)
                if not any(t[0] == "tmo" and t[1] == r for t in step):
                    add("no-timeout-error", "timer of waiting request %d fired, caller outcome: %s"
                        % (r, outcome.get(r)))
    # a message is handed to at most one caller
    seen = {}
    for si, step in enumerate(steps):
        for t in step:
            if t[0] == "dlv":
                seen.setdefault(t[3], []).append(t[1])
    for v, callers in seen.items():
        if len(callers) > 1:
            add("delivered-twice", "message %d was returned to callers %s" % (v, callers))
    if perm_script and transport == "rtsp":
        for r in range(nsent):
            if r not in outcome or outcome[r][1][0] != "dlv":
                add("response-not-delivered", "all responses arrived (permuted) but caller %d has outcome %s"
                    % (r, outcome.get(r)))
    return problems


# ------------------------------------------------------------------------------ run

def nontrivial(events):
    sent = done = 0
    waiting = set()
    maxw = 0
    interesting = False
    nexti = 0
    for e in events:
        if e[0] in SENDS:
            waiting.add(sent)
            sent += 1
        elif e[0] == "t":
            if e[1] in waiting:
                waiting.discard(e[1])
                interesting = True
        elif e[0] in MSG:
            if e[0] == "r" and e[2] < 50 and e[2] in waiting:
                if e[2] != min(waiting):
                    interesting = True
                waiting.discard(e[2])
            else:
                interesting = True
        maxw = max(maxw, len(waiting))
    return maxw >= 2 and interesting


def gen_cases(ctx):
    cases = []
    rng = ctx.rng
    cases.append(("http", 0, parse(HTTP_WITNESS), None))
    for transport in TRANSPORTS:
        base = 0 if transport != "companion" else rng.fork("base", transport).randint(0, 65536)
        rs = rng.fork("subs", transport)

        def subs(evs=(), mode=None):
            # MRP: the listener set varies from script to script; every transport: how the
            # device's messages are cut into reads
            text = random_subs(rs) if proto(transport) == "mrp" else ""
            return (text + reads_spec(transport, evs, rs, mode)).rstrip("#") or None

        for evs in (interleavings2(transport, base) if transport != "tunnel" or ctx.thorough else []):
            cases.append((transport, base, evs, subs(evs)))
            if transport in ("http", "rtsp") and sum(1 for e in evs if e[0] in MSG) > 1:
                cases.append((transport, base, evs, subs(evs, "all")))
        for n in ([3, 4] if ctx.thorough else [3]):
            for evs in structured(transport, base, n, rng.fork("stagger", transport, n)):
                cases.append((transport, base, evs, subs(evs)))
        r2 = rng.fork("random", transport)
        for _ in range(ctx.scale(600, 8000)):
            b = 0 if transport != "companion" else r2.randint(0, 65536)
            evs = random_script(transport, b, r2)
            cases.append((transport, b, evs, subs(evs)))
    # two protocol objects of one transport alive at once, same identifiers in flight on both
    for transport in TRANSPORTS:
        rp = rng.fork("pair", transport)
        for _ in range(ctx.scale(120, 1500)):
            b = 0 if transport != "companion" else rp.randint(0, 65536)
            ea = random_script(transport, b, rp, nmax=3, maxlen=8)
            eb = list(ea) if rp.chance(0.3) else random_script(transport, b, rp, nmax=3, maxlen=8)
            order = ["A"] * len(ea) + ["B"] * len(eb)
            rp.shuffle(order)
            sa = ((random_subs(rp) if proto(transport) == "mrp" else "") + reads_spec(transport, ea, rp)).rstrip("#") or None
            sb = ((random_subs(rp) if proto(transport) == "mrp" else "") + reads_spec(transport, eb, rp)).rstrip("#") or None
            cases.append(("pair", b, {"t": transport, "a": ea, "b": eb, "order": "".join(order)}, (sa, sb)))
    # the dispatcher alone: subscription sets x messages
    r3 = rng.fork("disp")
    for _ in range(ctx.scale(400, 4000)):
        msgs = ",".join("%d.%d" % (r3.randrange(NTYPES + 1), r3.randrange(12)) for _ in range(r3.randint(1, 6)))
        cases.append(("disp", 0, msgs, random_subs(r3, witness=r3.chance(0.5))))
    return cases


def execute(cases):
    from harness.core import vloop

    logging.getLogger("pyatv").setLevel(logging.CRITICAL)
    results = []

    async def batch(chunk):
        # exceptions of listeners end here (call_soon callbacks); they are observations, not noise
        asyncio.get_event_loop().set_exception_handler(lambda loop, context: None)
        for transport, base, evs, subs in chunk:
            if transport == "disp":
                try:
                    calls = await run_disp(subs, evs)
                except Exception as ex:
                    calls = [["raised:" + type(ex).__name__]]
                results.append((transport, base, evs, calls, subs))
                continue
            if transport == "pair":
                try:
                    sa, aa, sb, ab = await run_pair(evs["t"], base, evs, subs)
                except Exception as ex:
                    sa, aa, sb, ab = [[("raised", type(ex).__name__)]], None, [], None
                results.append((transport, base, evs, (sa, aa, sb, ab), subs))
                continue
            try:
                steps, ad = await run_script(transport, base, evs, subs)
            except Exception as ex:  # the harness must not crash on changed code
                steps, ad = [[("raised", type(ex).__name__)]] + [[] for _ in evs[1:]], None
            results.append((transport, base, evs, steps, ad))

    # a fresh loop per batch: cancelled timers pile up in a loop's heap otherwise
    for i in range(0, len(cases), 100):
        vloop.run(batch, cases[i:i + 100])
    return results


def disp_oracle(subs_text, msgs_text, calls):
    """per (callable, message): number of calls = number of its subscriptions for the message's
    type whose filter accepts (filters of one callable are generated disjoint: 0 or 1)"""
    problems = []
    subs = parse_subs(subs_text)
    for m, got in zip(msgs_text.split(","), calls):
        ty, v = (int(x) for x in m.split("."))
        want = expected_calls(subs, ty, v)
        if sorted(map(str, got)) != sorted(map(str, want)):
            problems.append(("dispatcher:subscription-not-called-once",
                             "message %s: callables called %s, subscriptions that accept it %s" % (m, got, want)))
    return problems


def run(ctx, only=None):
    cases = only if only is not None else gen_cases(ctx)
    results = execute(cases)
    lines, where = [], []
    for r in results:
        where.append(len(lines))
        if r[0] == "disp":
            lines.append("disp %s %s" % (split_subs(r[4])[0], r[2]))
        elif r[0] == "pair":
            lines.append(model_line(r[2]["t"], r[1], r[2]["a"]))
            lines.append(model_line(r[2]["t"], r[1], r[2]["b"]))
        else:
            lines.append(model_line(r[0], r[1], r[2]))
    answers = ctx.lean(lines)
    reported = {}

    def report(sig, case, observed, what):
        ctx.note("oracle:" + sig)
        n = reported.get(sig, 0)
        reported[sig] = n + 1
        if n < 3:
            ctx.fail(sig, case, observed, "see property C03", what)

    def judge(transport, base, evs, steps, ad, ans, case, prefix=""):
        """one protocol object: correspondence with the model + the oracle"""
        if ad is None:
            impl = [sorted(":".join(map(str, t)) for t in s) for s in steps]
        else:
            impl = [canon_step(ad, e, s) for e, s in zip(evs, steps)]
        model = canon_model(ans, transport)
        if transport == "rtsp" and ad is not None:
            model = merge_model(model, ad.plan)
        for s in impl:
            for t in s:
                ctx.note("obs:" + t.split(":")[0].split("#")[0])
        shown = ";".join(",".join(s) or "-" for s in impl)
        if impl != model:
            ctx.disagree(case, shown, ans, where=prefix + transport + " per-event outputs")
        ctx.validated()
        if ad is None:
            ctx.fail(prefix + transport + ":harness-could-not-run", case, impl, "script runs", "real code raised in setup")
            return impl
        for sig, what in oracle(transport, base, evs, steps, ad, is_perm_script(transport, base, evs)):
            report(sig if sig == KNOWN_SIG else prefix + sig, case, shown, what)
        return impl

    for res, at in zip(results, where):
        ans = answers[at]
        if res[0] == "disp":
            _t, _b, msgs, calls, subs = res
            case = {"transport": "disp", "base": 0, "script": msgs, "subs": subs}
            impl = ";".join(",".join(sorted(map(str, c))) or "-" for c in calls)
            model = ";".join(",".join(sorted(x.split(".")[1] for x in m.split(","))) if m != "-" else "-"
                             for m in ans.split(";"))
            psubs = parse_subs(subs)
            multi = len(set((t, l) for t, l, _f in psubs)) < len(psubs)
            ctx.note("transport:disp")
            ctx.note("disp-subs:%d" % min(8, len(psubs)))
            ctx.case(["disp", subs, msgs], multi, sample={"transport": "disp", "subs": subs, "msgs": msgs, "calls": impl})
            if impl != model:
                ctx.disagree(case, impl, ans, where="MessageDispatcher calls per message")
            ctx.validated()
            for sig, what in disp_oracle(subs, msgs, calls):
                report(sig, case, impl, what)
            continue
        if res[0] == "pair":
            _t, base, info, (sa, aa, sb, ab), subs = res
            case = {"transport": "pair", "of": info["t"], "base": base, "script": show(info["a"]),
                    "script2": show(info["b"]), "order": info["order"], "subs": subs[0], "subs2": subs[1]}
            ctx.note("transport:pair-" + info["t"])
            ctx.case(["pair", info["t"], base, case["script"], case["script2"], info["order"], subs[0], subs[1]],
                     "AB" in info["order"] and "BA" in info["order"], sample=case)
            judge(info["t"], base, info["a"], sa, aa, answers[at], case, prefix="pair-")
            if ab is not None or sb:
                judge(info["t"], base, info["b"], sb, ab, answers[at + 1], case, prefix="pair-")
            continue
        transport, base, evs, steps, ad = res
        script = show(evs)
        case = {"transport": transport, "base": base, "script": script}
        if ad is not None and getattr(ad, "subs_text", None):
            case["subs"] = ad.subs_text
        nreq = sum(1 for e in evs if e[0] in SENDS)
        ctx.note("transport:" + transport)
        ctx.note("requests:%d" % nreq)
        ctx.note("timeouts:%d" % min(3, sum(1 for e in evs if e[0] == "t")))
        ctx.note("len:%02d" % min(20, len(evs)))
        impl = judge(transport, base, evs, steps, ad, ans, case)
        outcomes = sorted(t for s in impl for t in s if not t.startswith("snt"))
        ctx.case([transport, base, script, case.get("subs")], nontrivial(evs),
                 sample=dict(case, observed=outcomes))


def widen(ctx):
    run(ctx)


def _rerun(case):
    if case["transport"] == "pair":
        info = {"t": case["of"], "a": parse(case["script"]), "b": parse(case["script2"]), "order": case["order"]}
        res = execute([("pair", case["base"], info, (case.get("subs"), case.get("subs2")))])
        sa, aa, sb, ab = res[0][3]
        probs = []
        for evs, steps, ad in ((info["a"], sa, aa), (info["b"], sb, ab)):
            if ad is None:
                probs.append(("pair-%s:harness-could-not-run" % case["of"], "setup raised"))
            else:
                probs += [(sig if sig == KNOWN_SIG else "pair-" + sig, what) for sig, what in
                          oracle(case["of"], case["base"], evs, steps, ad, False)]
        return probs
    if case["transport"] == "disp":
        res = execute([("disp", 0, case["script"], case["subs"])])
        return disp_oracle(case["subs"], case["script"], res[0][3])
    evs = parse(case["script"])
    res = execute([(case["transport"], case["base"], evs, case.get("subs"))])
    transport, base, evs, steps, ad = res[0]
    if ad is None:
        return [("%s:harness-could-not-run" % transport, "setup raised")]
    return oracle(transport, base, evs, steps, ad, is_perm_script(transport, base, evs))


def replay(ctx, failure):
    return bool(_rerun(failure["case"]))


def shrink(ctx, failure):
    """greedy removal of events (dispatcher cases: messages, then subscriptions) while the same
    sig still fails on the real code"""
    case = dict(failure["case"])
    if case["transport"] == "pair":
        return failure
    disp = case["transport"] == "disp"

    def items(c, field):
        if field == "subs":
            main = split_subs(c[field])[0]
            return [] if main in ("", "-") else main.split(",")
        if disp:
            return [] if c[field] in ("", "-") else c[field].split(",")
        return [tok(e) for e in parse(c[field])]

    fields = ["script"] + (["subs"] if case.get("subs") else [])
    changed = True
    while changed:
        changed = False
        for field in fields:
            its = items(case, field)
            if len(its) <= 1:
                continue
            for i in range(len(its)):
                cand = its[:i] + its[i + 1:]
                c2 = dict(case)
                c2[field] = ",".join(cand) or "-"
                if field == "subs" and "|" in case["subs"]:
                    c2[field] += "|" + case["subs"].split("|", 1)[1]
                if case["transport"] == "http" and not http_script_ok(parse(c2["script"])):
                    continue      # keep the device discipline the oracle's rule is stated for
                probs = [p for p in _rerun(c2) if p[0] == failure["sig"]]
                if probs:
                    case, changed = c2, True
                    failure = dict(failure, case=c2, what=probs[0][1], observed="(shrunk)")
                    break
            if changed:
                break
    return failure
