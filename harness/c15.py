"""C15 — saving settings to file is crash-atomic: correspondence + direct oracle.

Real code driven: pyatv.storage.file_storage.FileStorage.save() / load() on a real file
in a scratch directory under /tmp (removed afterwards).

While the real save() runs, `builtins.open` / `io.open` and `os.replace`, `os.rename`,
`os.fsync`, `os.unlink`, `os.remove` are wrapped FROM THE HARNESS (no source hook); files
opened for writing inside the scratch directory are proxied so that write / flush / close
are recorded.  The recorded operation trace is

  * sent to the Lean driver, which evaluates `safeSaveB` (the safe-save shape of theorem
    `safe_atomic`) and enumerates the target's content at every crash point;
  * replayed by the harness itself with REAL file-system calls in fresh scratch
    directories, stopping at every operation boundary and with several persisted prefixes
    of the data that has been written but not flushed (0, 1, half, all-but-one, all):
    each such crash state is (a) compared with the model's content for that crash point
    (correspondence) and (b) loaded with the real load() in a fresh FileStorage — the
    direct oracle: it must load and equal the complete old or the complete new settings.

Fault injection: for every file operation recorded during the ordinary save() the scenario
is rebuilt and save() runs once more with ONE injected OSError at exactly that operation
(open, write, flush, fsync, close, replace/rename, unlink; a rename with EBUSY, EXDEV, EACCES
and EPERM, data operations with EBUSY and ENOSPC).  Whatever the code then does — clean-up,
retry, a fallback that writes somewhere else — is recorded, judged by the model and
materialised crash point by crash point for the real load() exactly like the ordinary trace:
the property demands old-or-new at every instant whether or not an operation failed.

Nothing here depends on the shape of the save: any sequence of the recorded calls is
judged by its crash states.  A write-mode open the model has no operation for ("a", "x",
"+") is sent as an unknown op and reported (never defaulted).
"""
import asyncio
import builtins
import io
import json
import os
import shutil
import tempfile

RULE = ("(old, new) settings-content pairs: fixed kinds (no file -> non-empty, empty device list -> non-empty, "
        "growing, shrinking to a shorter file, unicode credentials, non-empty -> all devices removed, failing write) "
        "plus PRNG-generated device lists; every pair is saved once normally and once per recorded file operation with a single "
        "injected OSError at that operation (rename: EBUSY/EXDEV/EACCES/EPERM); one case = one crash point (operation boundary x persisted prefix) of the "
        "real save() trace (ordinary or faulted); non-trivial = the crash point lies strictly inside the save (after its first and before "
        "its last operation) or inside a write; distinct = (pair, boundary, prefix)")
ASSUMPTIONS = [
    "the OS makes rename/replace of a file within one directory atomic (trusted, not modelled further)",
    "a dying process loses exactly the data still buffered in its file objects; any prefix of buffered data may "
    "already have reached the file (write-prefix persistence); fsync is irrelevant for process death and is not demanded",
    "save() performs its file I/O through builtins.open/io.open file objects and os.replace/rename/unlink/remove/fsync "
    "(checked on every run: the recorded trace replayed on an empty directory must reproduce the real final directory)",
]
TRUSTED = ["the open()/os.* recording wrappers and the crash-state materialiser of harness/c15.py",
           "OS rename atomicity and prefix persistence of writes"]

UNI = "\U0001F34Fé中"


# --------------------------------------------------------------------------- recording

class _Proxy:
    """Write-mode file object wrapper recording write/flush/close."""

    def __init__(self, rec, fh, path, binary, encoding):
        self.__dict__.update(_rec=rec, _fh=fh, _path=path, _binary=binary, _enc=encoding or "utf-8", _closed=False)

    def _bytes(self, data):
        if isinstance(data, str):
            return data.encode(self._enc)
        return bytes(data)

    def write(self, data):
        rec = self._rec
        if rec.fail_write and rec.fail_write(self._path):
            raise OSError(28, "No space left on device (injected by harness/c15.py)")
        rec.attempt("write")
        rec.add(("w", self._path, self._bytes(data)))
        return self._fh.write(data)

    def writelines(self, lines):
        for l in lines:
            self.write(l)

    def flush(self):
        self._rec.attempt("flush")
        self._rec.add(("f", self._path))
        return self._fh.flush()

    def close(self):
        if not self._closed:
            self.__dict__["_closed"] = True
            # a failing close still releases the descriptor and writes what was buffered:
            # the operation takes effect, then the error is reported
            self._rec.add(("c", self._path))
            self._rec.open_files.discard(self)
            self._fh.close()
            self._rec.attempt("close")
            return None
        return self._fh.close()

    def truncate(self, *a):
        self._rec.add(("x-truncate", self._path))
        return self._fh.truncate(*a)

    def __enter__(self):
        return self

    def __exit__(self, *exc):
        self.close()
        return False

    def __getattr__(self, name):
        return getattr(self._fh, name)

    def __iter__(self):
        return iter(self._fh)


class Recorder:
    def __init__(self, root, fail_write=None, fault_at=None, fault_errno=16):
        self.root = os.path.realpath(root)
        self.ops = []
        self.open_files = set()
        self.fail_write = fail_write
        self.active = False
        self.fault_at = fault_at          # index of the operation attempt that raises OSError
        self.fault_errno = fault_errno
        self.attempts = 0
        self.fault_kind = None

    def attempt(self, kind):
        """Called once per file-system operation (inside the scratch directory) right
        before it takes effect; the `fault_at`-th one fails instead (single fault)."""
        n = self.attempts
        self.attempts += 1
        if self.fault_at is not None and n == self.fault_at:
            self.fault_kind = kind
            raise OSError(self.fault_errno, "injected fault at file operation %d (%s) by harness/c15.py" % (n, kind))

    def inside(self, p):
        try:
            rp = os.path.realpath(os.fspath(p))
        except TypeError:
            return None
        if rp == self.root or rp.startswith(self.root + os.sep):
            return rp
        return None

    def add(self, op):
        self.ops.append(op)

    def __enter__(self):
        rec = self
        self._orig = (builtins.open, io.open, os.replace, os.rename, os.fsync, os.unlink, os.remove)
        real_open = builtins.open

        def open_(file, mode="r", buffering=-1, encoding=None, *a, **k):
            rp = rec.inside(file) if not isinstance(file, int) else None
            if rp is None or not any(c in mode for c in "wax+"):
                return real_open(file, mode, buffering, encoding, *a, **k)
            rec.attempt("open")
            if "w" in mode and "+" not in mode:
                rec.add(("o", rp))
            else:
                rec.add(("x-open-" + mode.replace(":", ""), rp))
            fh = real_open(file, mode, buffering, encoding, *a, **k)
            px = _Proxy(rec, fh, rp, "b" in mode, encoding)
            rec.open_files.add(px)
            return px

        o_replace, o_rename, o_fsync, o_unlink, o_remove = self._orig[2:]

        def mv(real):
            def f(src, dst, *a, **k):
                s, d = rec.inside(src), rec.inside(dst)
                if (s is not None or d is not None) and os.path.lexists(src):
                    rec.attempt("rename")
                res = real(src, dst, *a, **k)
                if s is not None or d is not None:
                    rec.add(("r", s or "<outside>", d or "<outside>"))
                    for px in list(rec.open_files):
                        if px._path == s:
                            px.__dict__["_path"] = d
                return res
            return f

        def rm(real):
            def f(p, *a, **k):
                rp = rec.inside(p)
                if rp is not None and os.path.lexists(p):
                    rec.attempt("unlink")
                res = real(p, *a, **k)
                if rp is not None:
                    rec.add(("u", rp))
                return res
            return f

        def fsync(fd):
            hit = None
            for px in list(rec.open_files):
                try:
                    if px._fh.fileno() == (fd if isinstance(fd, int) else fd.fileno()):
                        hit = px
                        break
                except Exception:
                    pass
            if hit is not None:
                rec.attempt("fsync")
                rec.add(("s", hit._path))
            return o_fsync(fd)

        builtins.open = open_
        io.open = open_
        os.replace, os.rename = mv(o_replace), mv(o_rename)
        os.unlink, os.remove = rm(o_unlink), rm(o_remove)
        os.fsync = fsync
        return self

    def __exit__(self, *exc):
        (builtins.open, io.open, os.replace, os.rename, os.fsync, os.unlink, os.remove) = self._orig
        return False


# --------------------------------------------------------------------------- real storage helpers

def _conf(spec):
    """spec: {"name":..., "services":[(proto_name, identifier, credentials, password)], "info_name":...}"""
    from ipaddress import IPv4Address

    from pyatv import conf
    from pyatv.const import Protocol

    c = conf.AppleTV(IPv4Address("127.0.0.1"), spec.get("name", "dev"))
    for proto, ident, cred, pw in spec["services"]:
        c.add_service(conf.ManualService(ident, getattr(Protocol, proto), 0, {}, cred, pw))
    return c


def _populate(loop, storage, devices):
    for spec in devices:
        s = loop.run_until_complete(storage.get_settings(_conf(spec)))
        if spec.get("info_name") is not None:
            s.info.name = spec["info_name"]
        if spec.get("raop_password") is not None:
            s.protocols.raop.password = spec["raop_password"]


def _content(storage):
    """Canonical content of a storage: dumps of the devices that carry anything."""
    out = []
    for s in storage.settings:
        d = json.loads(s.json(exclude_defaults=True))
        if d != {}:
            out.append(d)
    return out


def _fresh_load(loop, path):
    """The oracle's observation: load `path` into a brand-new FileStorage."""
    from pyatv.storage.file_storage import FileStorage

    st = FileStorage(path, loop)
    try:
        loop.run_until_complete(st.load())
    except Exception as e:  # observation, not a harness error
        return ("raises", type(e).__name__)
    return ("ok", _content(st))


# --------------------------------------------------------------------------- crash materialisation

def _prefixes(n, full):
    if full:
        return list(range(n + 1))
    return sorted({0, 1, n // 2, n - 1, n} & set(range(n + 1)))


class _Replayer:
    """Replays a recorded trace with real OS calls in a scratch directory; pending
    (written, unflushed) data is kept here and only reaches the file on flush/close —
    or partially at the crash point."""

    def __init__(self, root, names, old):
        self.root = root
        self.names = names            # token -> file name inside root
        self.fds = {}                 # token -> raw unbuffered file object
        self.pend = {}
        os.makedirs(root)
        if old is not None:
            with open(self.p("p0"), "wb") as f:
                f.write(old)

    def p(self, tok):
        return os.path.join(self.root, self.names[tok])

    def step(self, op):
        k = op[0]
        if k == "o":
            old = self.fds.pop(op[1], None)
            if old:
                old.close()
            self.fds[op[1]] = open(self.p(op[1]), "wb", buffering=0)
            self.pend[op[1]] = b""
        elif k == "w":
            self.pend[op[1]] = self.pend.get(op[1], b"") + op[2]
        elif k in ("f", "c"):
            self._persist(op[1], None)
            if k == "c":
                fh = self.fds.pop(op[1], None)
                if fh:
                    fh.close()
        elif k == "s":
            pass
        elif k == "r":
            if os.path.exists(self.p(op[1])):
                os.replace(self.p(op[1]), self.p(op[2]))
                for d in (self.fds, self.pend):
                    d.pop(op[2], None)
                    if op[1] in d:
                        d[op[2]] = d.pop(op[1])
        elif k == "u":
            if os.path.exists(self.p(op[1])):
                os.unlink(self.p(op[1]))
            fh = self.fds.pop(op[1], None)
            if fh:
                fh.close()
            self.pend.pop(op[1], None)
        else:
            raise ValueError("unknown op %r" % (k,))

    def _persist(self, tok, k):
        data = self.pend.get(tok, b"")
        part = data if k is None else data[:k]
        fh = self.fds.get(tok)
        if fh is not None and part:
            fh.write(part)
        self.pend[tok] = data[len(part):]

    def crash(self, k):
        """The process dies now: `k` bytes of the target's pending data (or, if the target
        has none, of every other file's) have reached the disk."""
        if self.pend.get("p0"):
            self._persist("p0", k)
        else:
            for tok in list(self.pend):
                self._persist(tok, k)
        for fh in self.fds.values():
            fh.close()
        self.fds = {}

    def target(self):
        try:
            with open(self.p("p0"), "rb") as f:
                return f.read()
        except FileNotFoundError:
            return None

    def listing(self):
        out = {}
        for n in sorted(os.listdir(self.root)):
            with open(os.path.join(self.root, n), "rb") as f:
                out[n] = f.read()
        return out


def _hex(b):
    return "~" if b is None else (b.hex() or "-")


def _op_word(op, tok):
    k = op[0]
    if k == "w":
        return "w:%s:%s" % (tok(op[1]), op[2].hex() or "-")
    if k == "r":
        return "r:%s:%s" % (tok(op[1]), tok(op[2]))
    if k in ("o", "f", "s", "c", "u"):
        return "%s:%s" % (k, tok(op[1]))
    return "unknown-" + k


# --------------------------------------------------------------------------- cases

def _dev(i, cred="cred", pw=None, name=None, extra=None):
    d = {"name": "dev%d" % i,
         "services": [("MRP", "mrp-%d" % i, cred, None), ("AirPlay", "AA:BB:CC:00:00:%02X" % i, cred and cred + "-ap", pw)]}
    if name is not None:
        d["info_name"] = name
    if extra is not None:
        d["raop_password"] = extra
    return d


def fixed_pairs():
    big = [_dev(i, cred="c" * 40 + str(i), pw="pw%d" % i, name="Living room %d" % i) for i in range(6)]
    return [
        ("nofile->nonempty", None, [_dev(1)], None),
        ("emptylist->nonempty", [], [_dev(1), _dev(2, name="x")], None),
        ("grow", [_dev(1)], [_dev(1), _dev(2), _dev(3, pw="secret")], None),
        ("shrink", big, [_dev(0, cred="k")], None),
        ("unicode", [_dev(1, cred=UNI)], [_dev(1, cred=UNI), _dev(2, cred="", name=UNI * 3, extra=UNI)], None),
        ("nonempty->emptylist", [_dev(1), _dev(2)], [], None),
        ("same-length", [_dev(1, cred="aaaa")], [_dev(1, cred="bbbb")], None),
        ("failing-write", [_dev(1)], [_dev(1), _dev(2)], "fail"),
    ]


def random_pairs(rng, n):
    out = []
    for j in range(n):
        def devs():
            k = rng.choice([0, 1, 1, 2, 3, 5])
            return [_dev(rng.randrange(50), cred=rng.choice(["c", "", UNI, "x" * rng.randrange(1, 60)]),
                         pw=rng.choice([None, "pw", UNI]), name=rng.choice([None, "n", UNI, ""]))
                    for _ in range(k)]
        old = rng.choice([None, devs(), devs()])
        out.append(("random%d" % j, old, devs(), None))
    return out


def _uniq(devs):
    seen, out = set(), []
    for d in devs or []:
        if d["name"] not in seen:
            seen.add(d["name"])
            out.append(d)
    return out


# --------------------------------------------------------------------------- one pair

def _scenario(ctx, loop, root, sub, label, old_devs, new_devs):
    """Build, through the real API, the old settings file and a FileStorage holding the new
    content that is about to be saved.  Returns None when there is nothing to save."""
    from pyatv.storage.file_storage import FileStorage

    work = os.path.join(root, sub)
    os.makedirs(work)
    target = os.path.join(work, "pyatv.conf")
    if old_devs is not None:
        st0 = FileStorage(target, loop)
        _populate(loop, st0, _uniq(old_devs))
        if not st0.changed:
            # an empty storage does not write: force the canonical empty file
            with open(target, "w", encoding="utf-8") as f:
                f.write(json.dumps({"version": 1, "devices": []}) + "\n")
        else:
            loop.run_until_complete(st0.save())
    old_bytes = open(target, "rb").read() if os.path.exists(target) else None
    obs_old = _fresh_load(loop, target)
    if obs_old[0] != "ok":
        ctx.fail("setup:old-file-does-not-load", {"pair": label}, obs_old, "old file loads", "the completely saved old file does not load")
        return None
    st = FileStorage(target, loop)
    loop.run_until_complete(st.load())
    for s in list(st.settings):
        loop.run_until_complete(st.remove_settings(s))
    _populate(loop, st, _uniq(new_devs))
    if not st.changed:
        return None
    return {"work": work, "target": target, "old_bytes": old_bytes, "content_old": obs_old[1],
            "content_new": _content(st), "storage": st}


def _observe(ctx, loop, root, sub, sc, case_base, rec, full_prefixes, lean_jobs):
    """Run the real save() of scenario `sc` under recorder `rec`; judge the recorded trace:
    completeness of the recording, final content, every crash state (real load() oracle);
    queue the trace for the Lean driver.  Returns the number of recorded operations."""
    st, work, target = sc["storage"], sc["work"], sc["target"]
    old_bytes, content_old, content_new = sc["old_bytes"], sc["content_old"], sc["content_new"]
    raised = None
    with rec:
        try:
            loop.run_until_complete(st.save())
        except Exception as e:
            raised = type(e).__name__
    fault = rec.fault_kind
    ctx.note(("fault:%s:" % fault if fault else "") + ("save-raised:%s" % raised if raised else "save-completed"))
    final_listing = {n: open(os.path.join(work, n), "rb").read() for n in sorted(os.listdir(work))}
    new_bytes = final_listing.get("pyatv.conf")

    toks = {os.path.realpath(target): "p0"}

    def tok(p):
        return toks.setdefault(p, "p%d" % len(toks))

    words = [_op_word(op, tok) for op in rec.ops]
    names = {t: os.path.basename(p) for p, t in toks.items()}
    trace = []
    for op in rec.ops:
        if op[0] == "w":
            trace.append(("w", tok(op[1]), op[2]))
        elif op[0] == "r":
            trace.append(("r", tok(op[1]), tok(op[2])))
        else:
            trace.append((op[0], tok(op[1])))
    case_base = dict(case_base, trace=words)
    if fault:
        case_base["injected_fault"] = {"operation_index": rec.fault_at, "operation": fault}
    ctx.note(("fault-" if fault else "") + "trace-shape:" + "".join(w[0] for w in words))

    unknown = [w for w in words if w.startswith("unknown-")]
    # --- completeness of the recording: replaying it must reproduce the real directory
    okreplay = True
    try:
        rp = _Replayer(os.path.join(root, sub + "-full"), names, old_bytes)
        for op in trace:
            rp.step(op)
        for fh in rp.fds.values():
            fh.close()
        if rp.listing() != final_listing:
            okreplay = False
    except ValueError:
        okreplay = False
    if not okreplay or unknown:
        ctx.disagree(case_base, {"final_dir": {k: v.hex() for k, v in final_listing.items()}},
                     "recorded trace does not explain the directory / contains operations the model lacks: %s" % unknown,
                     where="trace recording")
        if unknown:
            return len(rec.ops)

    # --- completed save really saved; a save that raised kept old (or already has new)
    obs_final = _fresh_load(loop, target)
    if raised is None:
        if obs_final != ("ok", content_new):
            ctx.fail("save-complete:content-differs", case_base, obs_final, content_new,
                     "after a completed save() a fresh load does not give the saved content")
    else:
        if obs_final not in (("ok", content_old), ("ok", content_new)):
            ctx.fail("save-failed:old-content-lost", case_base, obs_final, content_old,
                     "save() raised %s and the file holds neither the previous nor the new content" % raised)
        left = [n for n in final_listing if n != "pyatv.conf"]
        ctx.note("failed-save-leftover-files:%d" % len(left))

    # --- crash points: real materialisation + oracle
    groups = []
    for i in range(len(trace) + 1):
        probe = _Replayer(os.path.join(root, "%s-probe%d" % (sub, i)), names, old_bytes)
        for op in trace[:i]:
            probe.step(op)
        tp = len(probe.pend.get("p0", b""))
        others = max([len(v) for t, v in probe.pend.items() if t != "p0"] + [0])
        for fh in probe.fds.values():
            fh.close()
        pend_len = tp if tp else others
        row = {}
        for k in _prefixes(pend_len, full_prefixes):
            r = _Replayer(os.path.join(root, "%s-c%d_%d" % (sub, i, k)), names, old_bytes)
            for op in trace[:i]:
                r.step(op)
            r.crash(k)
            content = r.target()
            obs = _fresh_load(loop, r.p("p0"))
            shutil.rmtree(r.root, ignore_errors=True)
            inside = (0 < i < len(trace)) or k not in (0, pend_len)
            ctx.case([case_base["pair"], case_base.get("mode"), i, k], inside)
            ctx.note("crash-point:%s" % ("boundary" if k in (0, pend_len) else "inside-write"))
            if tp:
                row[k] = content
            else:
                row.setdefault(0, content)
            if obs not in (("ok", content_old), ("ok", content_new)):
                if obs[0] == "raises":
                    kind = "empty-file" if content == b"" else "truncated-file"
                    sig = "save-crash:%s:load-raises" % kind
                else:
                    sig = "save-crash:loads-neither-old-nor-new"
                if fault:
                    sig += ":after-failed-" + fault
                ctx.fail(sig, dict(case_base, crash_after_ops=i, persisted_prefix=k, target_hex=_hex(content)),
                         obs, "load() gives the complete old or the complete new settings",
                         "%sprocess death after %d of %d file operations of save() (persisted prefix %d) leaves a settings "
                         "file that %s" % ("with the %s at file operation %d failing (OSError), " % (fault, rec.fault_at) if fault else "",
                                           i, len(trace), k, "load() rejects" if obs[0] == "raises" else "is neither old nor new"))
        shutil.rmtree(probe.root, ignore_errors=True)
        groups.append((tp, row))
    lean_jobs.append((case_base, old_bytes, new_bytes if new_bytes is not None else b"", words, groups, raised,
                      fault, final_listing.get("pyatv.conf")))
    return len(rec.ops)


def run_pair(ctx, loop, label, old_devs, new_devs, mode, full_prefixes, lean_jobs, max_faults=None):
    """mode: None   = the ordinary save(), then save() once more per recorded file operation
                      with ONE injected OSError at that operation (fallback/clean-up paths);
             "fail" = every write raises;
             "fault:<n>[:<errno>]" = only the run with the fault at operation n (replay)."""
    root = tempfile.mkdtemp(prefix="verif-c15-", dir="/tmp")
    try:
        case_base = {"pair": label, "old": old_devs, "new": new_devs, "mode": mode}
        only_errno = None
        if isinstance(mode, str) and mode.startswith("fault:"):
            parts = mode.split(":")
            faults, plain = [int(parts[1])], False
            only_errno = int(parts[2]) if len(parts) > 2 else None
        else:
            faults, plain = None, True
        n_ops = 0
        if plain:
            sc = _scenario(ctx, loop, root, "live", label, old_devs, new_devs)
            if sc is None:
                ctx.note("pair-skipped-unchanged")
                return
            rec = Recorder(sc["work"], fail_write=(lambda p: True) if mode == "fail" else None)
            n_ops = _observe(ctx, loop, root, "live", sc, case_base, rec, full_prefixes, lean_jobs)
            if mode is None:
                faults = list(range(n_ops))
                if max_faults is not None and len(faults) > max_faults:
                    faults = faults[:max_faults]
        kinds = {}
        for j in faults or []:
            # errno of the injected OSError: a rename is tried with every errno a fallback could
            # plausibly be keyed on (EBUSY bind mount, EXDEV other device, EACCES/EPERM held open)
            errnos = [only_errno if only_errno is not None else 16]
            for n, errno_ in enumerate(errnos):
                sub = "fault%d_%d" % (j, errno_)
                sc = _scenario(ctx, loop, root, sub, label, old_devs, new_devs)
                if sc is None:
                    return
                rec = Recorder(sc["work"], fault_at=j, fault_errno=errno_)
                _observe(ctx, loop, root, sub, sc, dict(case_base, mode="fault:%d:%d" % (j, errno_)), rec, False, lean_jobs)
                if n == 0 and rec.fault_kind == "rename" and only_errno is None:
                    errnos += [18, 13, 1]
                elif n == 0 and rec.fault_kind in ("write", "flush", "fsync", "close") and only_errno is None:
                    errnos += [28]
    finally:
        shutil.rmtree(root, ignore_errors=True)


def compare_with_model(ctx, jobs):
    lines = ["crash p0 %s %s %s" % (_hex(old), new.hex() or "-", " ".join(words))
             for (_c, old, new, words, _g, _r, _o, _f) in jobs]  # _o = injected fault kind
    answers = ctx.lean(lines)
    for (case, old, new, words, groups, raised, fault, final), ans in zip(jobs, answers):
        ctx.validated()
        parts = ans.split(" ")
        if len(parts) != 3:
            ctx.disagree(case, "trace of %d ops" % len(words), ans, where="driver answer")
            continue
        safe, mfinal, mgroups = parts
        mgroups = [g.split(",") for g in mgroups.split("/")]
        ctx.note(("fault-" if fault else "") + "model-safeSave:%s" % safe)
        if fault and safe != "1":
            touched = any(len(g) > 1 or g[0] != _hex(old) for g in mgroups)
            ctx.note("fault-trace-touches-target:%s" % ("yes" if touched else "no"))
        if mfinal != _hex(final):
            ctx.disagree(case, _hex(final), mfinal, where="target content after the complete trace")
        if len(mgroups) != len(groups):
            ctx.disagree(case, len(groups), len(mgroups), where="number of crash points")
            continue
        for i, ((tp, row), mg) in enumerate(zip(groups, mgroups)):
            if len(mg) != tp + 1:
                ctx.disagree(dict(case, crash_after_ops=i), tp + 1, len(mg), where="number of persisted prefixes of the target")
                continue
            for k, content in row.items():
                if mg[k] != _hex(content):
                    ctx.disagree(dict(case, crash_after_ops=i, prefix=k), _hex(content), mg[k], where="target content at crash point")
        # the theorem instance: a trace of the safe shape has only old/new crash contents
        allc = {c for g in mgroups for c in g}
        if safe == "1" and not allc <= {_hex(old), _hex(new)}:
            ctx.disagree(case, sorted(allc), "safeSaveB = true", where="safe_atomic instance (model inconsistent with its theorem)")
        if raised is None and safe != "1" and not fault:
            # not a violation by itself (the oracle judges); recorded so that a changed save shape is visible
            ctx.note("completed-save-not-of-safe-shape")


def run(ctx, only=None):
    loop = asyncio.new_event_loop()
    jobs = []
    try:
        pairs = fixed_pairs() + random_pairs(ctx.rng.fork("pairs"), ctx.scale(4, 40))
        if only is not None:
            pairs = only
        for idx, (label, old, new, mode) in enumerate(pairs):
            full = ctx.thorough and idx % 3 == 0
            try:
                run_pair(ctx, loop, label, old, new, mode, full, jobs)
            except Exception as e:  # changed code must not crash the harness
                ctx.disagree({"pair": label}, "harness step raised %s: %s" % (type(e).__name__, e), "n/a", where="run_pair")
    finally:
        loop.run_until_complete(loop.shutdown_default_executor())
        loop.close()
    if jobs:
        compare_with_model(ctx, jobs)


def replay(ctx, failure):
    case = failure["case"]
    c2 = type(ctx)(ctx.prop, ctx.tier, ctx.seed, ctx.driver.driver_rel)
    run(c2, only=[(case["pair"], case.get("old"), case.get("new"), case.get("mode"))])
    return bool(c2.failures)
