"""C15 — saving settings to file is crash-atomic: correspondence + direct oracle.

Real code driven: pyatv.storage.file_storage.FileStorage.save() / load() on real files in
a sandbox directory under /tmp (removed afterwards).

RECORDING.  While the real save() runs, the file-system primitives are wrapped FROM THE
HARNESS (no source hook): builtins.open / io.open / _io.open, os.open + os.fdopen +
os.write + os.close (also with dir_fd= relative to a sandbox directory descriptor, unnamed
O_TMPFILE files and their naming through link("/proc/self/fd/N")), os.replace / os.rename,
os.link, os.unlink / os.remove, os.fsync / os.fdatasync; every OTHER os function that is
called with a sandbox path is reported as an operation the model lacks (metadata calls such as
chmod / utime excepted); shutil's sendfile / copy_file_range fast paths are switched off so that
shutil.copyfile / copy / move go through the wrapped open / write / rename.  Files opened
for writing inside the sandbox are proxied (write / flush / close recorded).  Each operation
is recorded twice: RAW (lexical path relative to the sandbox, per-open file id) and as a
MODEL word over path tokens, `p0` being "whatever the settings path denotes" (through a
symbolic link if it is one).  A primitive the model has no operation for (append / read-
write opens, hard links, truncate) is sent as an unknown word and reported, never defaulted;
after every run the raw trace is re-executed on a copy of the initial sandbox and must
reproduce the real final directory (an unrecorded primitive is thereby reported too).

JUDGING a recorded trace
  * the Lean driver evaluates `safeSaveB` (safe-save shape of theorem `safe_atomic`) and
    enumerates the target's content at every crash point from the same initial directory;
  * the harness REALLY re-executes the raw operations step by step in fresh copies of the
    initial sandbox (same layout: nested directory, symbolic link, leftovers), stopping at
    every operation boundary and with several persisted prefixes of written-but-unflushed
    data (0, 1, half, all-but-one, all); each crash state is (a) compared with the model's
    content for that crash point and (b) loaded by the real load() in a fresh FileStorage
    through the settings path — the direct oracle: it must load and equal the complete old
    or the complete new settings.

WHAT IS ENUMERATED
  * ordinary save() for fixed and PRNG (old, new) content pairs;
  * FAULTS: save() once more per recorded operation with ONE injected OSError at exactly
    that operation (rename: EBUSY / EXDEV / EACCES / EPERM; data operations EBUSY / ENOSPC);
    clean-up and fallback paths are recorded and judged like any trace;
  * PARTIAL SUCCESS: save() once more per recorded write with that write accepting only k
    bytes (0, 1, half, all but one): os.write and raw file objects return the short count
    WITHOUT raising; a buffered / text writer's retry fails with EFBIG after the k bytes
    reached the file.  A save() that returns normally must have saved the complete new
    content; old-or-new is demanded at every crash point as always;
  * PATH KINDS: the settings path in a nested directory, as a symbolic link to a file in the
    same / in another directory, as a relative path (cwd inside the sandbox), each ordinary
    and faulted; settings file names of 245 / 250 / 254 / 255 bytes (NAME_MAX boundary: the temp
    name does not fit — a save() that raises and leaves the old file intact is fine);
  * KIND OF THE EXISTING TARGET (what os.stat reports and a save path could branch on): a file
    with a second hard link, a read-only file, a file reached through a directory symlink, a
    very large file — each ordinary (and one pair faulted), every crash point;
  * INITIAL DIRECTORY: every distinct crash state of a first save() (its leftover temp files
    and whichever content the target then has) is the initial directory of a second save()
    of shorter and of longer content; old-or-new is demanded of the second save's crash
    points and final state;
  * TWO SAVERS: two processes with different pids save the same file, the second is killed
    mid-save: the two recorded traces are interleaved at every operation boundary and
    materialised (oracle only; the model has one writer per path);
  * SIBLING FILES: two storages of one process saving two DIFFERENT files of one directory at
    overlapping times, interleaved the same way, with and without the process dying.
Loads run under virtual time (time.sleep patched): a load() that waits longer than 1 s — e.g.
for a lock left behind by a dead process — counts like one that raises.  Generation stops once
the oracle has failing inputs or the tier's time budget is used up.
"""
import asyncio
import builtins
import io
import json
import os
import shutil
import tempfile

import _io

RULE = ("scenario = (initial directory, path kind, new content, optional single injected fault); initial directories: "
        "fixed and PRNG old contents (no file, empty device list, small, large, unicode) and every distinct crash state "
        "of a previous save() (leftover temp files); path kinds: plain, nested directory, symlink to same/other "
        "directory, relative path; faults: one OSError at each recorded file operation (rename with 4 errnos), each write accepting only k bytes "
        "(short count without error for os.write / raw files, EFBIG on the buffered writer's retry); one case "
        "= one crash point (operation boundary x persisted prefix) of the real save() trace of a scenario; non-trivial "
        "= the crash point lies strictly inside the save or inside a write; distinct = (scenario, boundary, prefix)")
ASSUMPTIONS = [
    "the OS makes rename/replace of a file atomic (trusted, not modelled further)",
    "a dying process loses exactly the data still buffered in its file objects; any prefix of buffered data may "
    "already have reached the file (write-prefix persistence); fsync is irrelevant for process death and is not demanded",
    "save() performs its file I/O through the wrapped primitives (module docstring); checked on every run: the "
    "recorded raw trace re-executed on a copy of the initial sandbox must reproduce the real final directory",
    "os.fsync / os.fdatasync on sandbox files are recorded but not executed during the observed save() (irrelevant for "
    "process death; keeps the run fast)",
    "a restarted process may get the same pid (in-process simulation; containers): leftover temp files keep their name",
]
TRUSTED = ["the recording wrappers and the step-by-step crash-state materialiser of harness/c15.py",
           "OS rename atomicity and prefix persistence of writes"]

UNI = "\U0001F34Fé中"
PATH_KINDS = ["plain", "nested", "symlink-same", "symlink-other", "relative", "relative-nested"]
TARGET_KINDS = ["hardlink", "readonly", "dir-symlink"]      # kind of the EXISTING target (what os.stat reports)
NAME_KINDS = ["name-245", "name-250", "name-254", "name-255"]      # file-name length in bytes, at the NAME_MAX boundary


# --------------------------------------------------------------------------- sandbox layout

def make_layout(root, kind, target_bytes, extras):
    """Create the initial directory under `root` (must not exist).  Returns
    (settings path as given to FileStorage, cwd or None, absolute settings path)."""
    live = os.path.join(root, "live")
    os.makedirs(live)
    cwd = None
    if kind == "plain":
        given = abs_ = os.path.join(live, "pyatv.conf")
        real = abs_
    elif kind == "nested":
        os.makedirs(os.path.join(live, "a", "b c"))
        given = abs_ = real = os.path.join(live, "a", "b c", "pyatv.conf")
    elif kind == "symlink-same":
        given = abs_ = os.path.join(live, "pyatv.conf")
        real = os.path.join(live, "real.conf")
        os.symlink("real.conf", abs_)
    elif kind == "symlink-other":
        os.makedirs(os.path.join(live, "home"))
        os.makedirs(os.path.join(live, "dotfiles"))
        given = abs_ = os.path.join(live, "home", ".pyatv.conf")
        real = os.path.join(live, "dotfiles", "pyatv.conf")
        os.symlink(os.path.join("..", "dotfiles", "pyatv.conf"), abs_)
    elif kind == "relative":
        cwd, given = live, "pyatv.conf"
        abs_ = real = os.path.join(live, "pyatv.conf")
    elif kind in ("hardlink", "readonly"):
        given = abs_ = real = os.path.join(live, "pyatv.conf")
    elif kind == "dir-symlink":
        # the settings file is reached through a symbolic link to its directory
        os.makedirs(os.path.join(live, "realdir"))
        os.symlink("realdir", os.path.join(live, "cfg"))
        given = abs_ = os.path.join(live, "cfg", "pyatv.conf")
        real = os.path.join(live, "realdir", "pyatv.conf")
    elif kind.startswith("name-"):
        # a settings file name at the NAME_MAX boundary (bytes): <name>.tmp<pid> no longer fits
        n = int(kind.split("-")[1])
        given = abs_ = real = os.path.join(live, "c" * (n - 5) + ".conf")
    elif kind == "relative-nested":
        os.makedirs(os.path.join(live, "sub"))
        cwd, given = live, os.path.join("sub", "pyatv.conf")
        abs_ = real = os.path.join(live, "sub", "pyatv.conf")
    else:
        raise ValueError(kind)
    if target_bytes is not None:
        with open(real, "wb") as f:
            f.write(target_bytes)
        # what os.stat reports about the existing target and a save path could branch on
        if kind == "hardlink":
            os.makedirs(os.path.join(live, "backup"))
            os.link(real, os.path.join(live, "backup", "pyatv.conf.link"))      # st_nlink == 2
        elif kind == "readonly":
            os.chmod(real, 0o444)
    for rel, data in (extras or {}).items():
        p = os.path.join(root, rel)
        if os.path.lexists(p):
            continue
        os.makedirs(os.path.dirname(p), exist_ok=True)
        with open(p, "wb") as f:
            f.write(data)
    return given, cwd, abs_


def listing(root):
    """{relative path: bytes | ('link', text)} of everything below root."""
    out = {}
    for d, dirs, files in os.walk(root):
        for n in files + [x for x in dirs if os.path.islink(os.path.join(d, x))]:
            p = os.path.join(d, n)
            rel = os.path.relpath(p, root)
            if os.path.islink(p):
                out[rel] = ("link", os.readlink(p))
            else:
                with open(p, "rb") as f:
                    out[rel] = f.read()
    return out


def read_through(path):
    try:
        with open(path, "rb") as f:
            return f.read()
    except (FileNotFoundError, NotADirectoryError):
        return None


def entry(p):
    """the directory entry a rename/unlink/link acts on (final component not followed)"""
    p = os.path.abspath(p)
    return os.path.join(os.path.realpath(os.path.dirname(p)), os.path.basename(p))


# --------------------------------------------------------------------------- recording

class _Proxy:
    """Write-mode file object wrapper recording write/flush/close."""

    def __init__(self, rec, fh, fid, key, encoding):
        self.__dict__.update(_rec=rec, _fh=fh, _fid=fid, _key=key, _enc=encoding or "utf-8", _closed=False)

    def _bytes(self, data):
        if isinstance(data, str):
            return data.encode(self._enc)
        return bytes(data)

    def write(self, data):
        rec = self._rec
        if rec.fail_write:
            raise OSError(28, "No space left on device (injected by harness/c15.py)")
        b = self._bytes(data)
        k = rec.short_here(len(b))
        if k is not None:
            # the kernel takes only k bytes.  A raw (unbuffered) file object reports the short
            # count; a buffered / text writer retries, and the retry fails (EFBIG: file size limit)
            part = b[:k]
            raw = isinstance(self._fh, io.RawIOBase)
            rec.add(("w", self._fid, part), "w:%s:%s" % (rec.tok(self._key), part.hex() or "-"))
            rec.add(("f", self._fid), "f:" + rec.tok(self._key))
            if raw:
                self._fh.write(part)
                return k
            self._fh.flush()
            os_write_real = rec._os_write
            os_write_real(self._fh.fileno(), part)
            raise OSError(27, "File too large (short write of %d bytes, then error; injected by harness/c15.py)" % k)
        rec.attempt("write")
        rec.add(("w", self._fid, b), "w:%s:%s" % (rec.tok(self._key), b.hex() or "-"))
        return self._fh.write(data)

    def writelines(self, lines):
        for l in lines:
            self.write(l)

    def flush(self):
        self._rec.attempt("flush")
        self._rec.add(("f", self._fid), "f:" + self._rec.tok(self._key))
        return self._fh.flush()

    def close(self):
        if not self._closed:
            self.__dict__["_closed"] = True
            # a failing close still releases the descriptor and writes what was buffered:
            # the operation takes effect, then the error is reported
            self._rec.add(("c", self._fid), "c:" + self._rec.tok(self._key))
            self._rec.open_files.discard(self)
            self._fh.close()
            self._rec.attempt("close")
            return None
        return self._fh.close()

    def truncate(self, *a):
        self._rec.add(("x", "truncate"), "unknown-truncate")
        return self._fh.truncate(*a)

    def __enter__(self):
        return self

    def __exit__(self, *exc):
        self.close()
        return False

    def __getattr__(self, name):
        return getattr(self._fh, name)

    def __iter__(self):
        return iter(self._fh)


class Recorder:
    def __init__(self, root, settings_abs, fail_write=False, fault_at=None, fault_errno=16, pid=None, short=None):
        self.root = os.path.abspath(root)
        self.realroot = os.path.realpath(root)
        self.settings_abs = settings_abs
        self.raw, self.words = [], []
        self.open_files = set()
        self.raw_fds = {}                 # os.open descriptors not (yet) wrapped: fd -> (fid, key)
        self.dir_fds = {}                 # descriptors of sandbox directories (for dir_fd= arguments): fd -> path
        self.fail_write = fail_write
        self.fault_at, self.fault_errno = fault_at, fault_errno
        self.attempts, self.fault_kind = 0, None
        self.toks = {}
        self.nfid = 0
        self.short = short                # (operation index, k): that write accepts only k bytes
        self.pid = pid                    # the pid the saving process is to see (a restarted process
                                          # with the pid of the one that left the leftovers)

    # -- paths / tokens
    def inside(self, p):
        try:
            a = os.path.abspath(os.fspath(p))
            if not isinstance(a, str):
                a = os.fsdecode(a)
        except (TypeError, ValueError):
            return None
        if a == self.root or a.startswith(self.root + os.sep):
            return a
        r = os.path.realpath(a)
        if r.startswith(self.realroot + os.sep):
            return a
        return None

    def rel(self, a):
        return os.path.relpath(a, self.root)

    def at(self, p, dir_fd):
        """the path a call with dir_fd= refers to"""
        if dir_fd is None or isinstance(p, int):
            return p
        base = self.dir_fds.get(dir_fd)
        p = os.fsdecode(os.fspath(p))
        return p if (base is None or os.path.isabs(p)) else os.path.normpath(os.path.join(base, p))

    def fid_of_fd(self, n):
        for px in list(self.open_files):
            try:
                if px._fh.fileno() == n:
                    return px._fid, px._key
            except Exception:
                pass
        return self.raw_fds.get(n)

    def tok(self, key):
        """model token of an identity path; p0 = what the settings path denotes right now"""
        if key == os.path.realpath(self.settings_abs) or key == entry(self.settings_abs):
            return "p0"
        return self.toks.setdefault(key, "p%d" % (len(self.toks) + 1))

    def add(self, raw, word):
        self.raw.append(raw)
        self.words.append(word)

    def attempt(self, kind):
        """Called once per file-system operation right before it takes effect; the
        `fault_at`-th one fails instead (single fault)."""
        n = self.attempts
        self.attempts += 1
        if self.fault_at is not None and n == self.fault_at:
            self.fault_kind = kind
            raise OSError(self.fault_errno, "injected fault at file operation %d (%s) by harness/c15.py" % (n, kind))

    def short_here(self, n_bytes):
        """Partial success: is the operation about to be attempted the write that accepts only k
        bytes?  Returns k (< n_bytes) or None; counts the attempt."""
        if self.short is None or self.attempts != self.short[0]:
            return None
        self.attempts += 1
        self.fault_kind = "short-write"
        return max(0, min(self.short[1], n_bytes - 1))

    def new_fid(self):
        self.nfid += 1
        return self.nfid

    # -- patching
    def __enter__(self):
        rec = self
        names = [(builtins, "open"), (io, "open"), (_io, "open"), (os, "open"), (os, "fdopen"), (os, "write"),
                 (os, "close"), (os, "replace"), (os, "rename"), (os, "link"), (os, "unlink"), (os, "remove"),
                 (os, "fsync"), (os, "fdatasync")]
        self._orig = [(m, n, getattr(m, n)) for m, n in names if hasattr(m, n)]
        # every OTHER builtin function of the os module: a call that names a sandbox path (or a
        # sandbox directory descriptor) is an operation the model lacks — reported, never ignored —
        # unless it only reads or only changes metadata
        handled = {n for m, n in names if m is os} | {"getpid"}
        harmless = {"stat", "lstat", "fstat", "access", "listdir", "scandir", "readlink", "getcwd", "getcwdb", "fspath",
                    "fsencode", "fsdecode", "read", "pread", "readv", "lseek", "dup", "dup2", "urandom", "strerror",
                    "pathconf", "statvfs", "getxattr", "listxattr", "chmod", "lchmod", "chown", "lchown", "utime",
                    "get_inheritable", "set_inheritable", "get_blocking", "set_blocking", "isatty", "cpu_count",
                    "putenv", "unsetenv", "umask", "times", "kill", "waitpid", "_exit", "register_at_fork", "pipe",
                    "pipe2", "closerange", "device_encoding", "get_terminal_size", "sched_yield", "getppid",
                    "fchmod", "fchown", "fstatvfs", "fpathconf"}
        import types
        self._generic = []
        for n in dir(os):
            v = getattr(os, n)
            if n in handled or n in harmless or n.startswith("_") or not isinstance(v, types.BuiltinFunctionType):
                continue

            def make(name, real):
                def g(*a, **k):
                    hit = None
                    for x in list(a) + [k.get("path"), k.get("src"), k.get("dst")]:
                        if isinstance(x, (str, bytes, os.PathLike)):
                            dfd = k.get("dir_fd", k.get("dst_dir_fd", k.get("src_dir_fd")))
                            if rec.inside(rec.at(x, dfd if dfd in rec.dir_fds else None)):
                                hit = x
                                break
                    if hit is not None:
                        rec.attempt(name)
                        rec.add(("x", "os." + name), "unknown-os." + name)
                    return real(*a, **k)
                return g
            self._generic.append((n, v))
            setattr(os, n, make(n, v))
        self._getpid = os.getpid
        if self.pid is not None:
            os.getpid = lambda: rec.pid
        self._shutil = {n: getattr(shutil, n) for n in ("_USE_CP_SENDFILE", "_USE_CP_COPY_FILE_RANGE") if hasattr(shutil, n)}
        for n in self._shutil:
            setattr(shutil, n, False)
        real_open, os_open, os_fdopen = builtins.open, os.open, os.fdopen
        os_write, os_close = os.write, os.close
        o_fsync = os.fsync
        o_fdatasync = getattr(os, "fdatasync", None)

        def wrap(fh, fid, key, encoding):
            px = _Proxy(rec, fh, fid, key, encoding)
            rec.open_files.add(px)
            return px

        def open_(file, mode="r", buffering=-1, encoding=None, *a, **k):
            writing = any(c in mode for c in "wax+")
            if isinstance(file, int):
                if file in rec.raw_fds and writing:
                    fid, key = rec.raw_fds.pop(file)
                    return wrap(real_open(file, mode, buffering, encoding, *a, **k), fid, key, encoding)
                return real_open(file, mode, buffering, encoding, *a, **k)
            ap = rec.inside(file)
            if ap is None or not writing:
                return real_open(file, mode, buffering, encoding, *a, **k)
            rec.attempt("open")
            key, fid = os.path.realpath(ap), rec.new_fid()
            fh = real_open(file, mode, buffering, encoding, *a, **k)     # an open that raises (ENAMETOOLONG…) is no operation
            if "w" in mode and "+" not in mode and "opener" not in k:
                rec.add(("o", fid, rec.rel(ap), True), "o:" + rec.tok(key))
            else:
                rec.add(("x", "open-" + mode), "unknown-open-" + mode.replace(":", ""))
            return wrap(fh, fid, key, encoding)

        O_TMPFILE = getattr(os, "O_TMPFILE", 0)

        def osopen(path, flags, mode=0o777, *a, **k):
            dfd = k.get("dir_fd")
            if dfd is not None and dfd not in rec.dir_fds:
                return os_open(path, flags, mode, *a, **k)
            ap = rec.inside(rec.at(path, dfd)) if not isinstance(path, int) else None
            acc = flags & (os.O_WRONLY | os.O_RDWR)
            if ap is None:
                return os_open(path, flags, mode, *a, **k)
            if not acc:
                fd = os_open(path, flags, mode, *a, **k)
                if os.path.isdir(ap):
                    rec.dir_fds[fd] = ap
                return fd
            rec.attempt("open")
            fid = rec.new_fid()
            fd = os_open(path, flags, mode, *a, **k)
            if O_TMPFILE and (flags & O_TMPFILE) == O_TMPFILE:
                # an unnamed file in directory `ap`; it gets a name only through link()
                key = "<anon%d>" % fid
                rec.add(("t", fid, rec.rel(ap)), "o:" + rec.tok(key))
            else:
                key = os.path.realpath(ap)
                if flags & (os.O_APPEND | os.O_RDWR):
                    rec.add(("x", "os.open-%o" % flags), "unknown-os-open-%o" % flags)
                elif flags & os.O_TRUNC:
                    rec.add(("o", fid, rec.rel(ap), True), "o:" + rec.tok(key))
                else:
                    rec.add(("o", fid, rec.rel(ap), False), "k:" + rec.tok(key))
            rec.raw_fds[fd] = (fid, key)
            return fd

        def fdopen(fd, mode="r", buffering=-1, encoding=None, *a, **k):
            if fd in rec.raw_fds and any(c in mode for c in "wax+"):
                fid, key = rec.raw_fds.pop(fd)
                return wrap(os_fdopen(fd, mode, buffering, encoding, *a, **k), fid, key, encoding)
            return os_fdopen(fd, mode, buffering, encoding, *a, **k)

        rec._os_write = os_write

        def oswrite(fd, data):
            if fd in rec.raw_fds:
                fid, key = rec.raw_fds[fd]
                b = bytes(data)
                k = rec.short_here(len(b))
                if k is not None:
                    part = b[:k]
                    rec.add(("w", fid, part), "w:%s:%s" % (rec.tok(key), part.hex() or "-"))
                    rec.add(("f", fid), "f:" + rec.tok(key))
                    os_write(fd, part)
                    return k                      # short count, no error
                rec.attempt("write")
                rec.add(("w", fid, b), "w:%s:%s" % (rec.tok(key), b.hex() or "-"))
                rec.add(("f", fid), "f:" + rec.tok(key))
            return os_write(fd, data)

        def osclose(fd):
            rec.dir_fds.pop(fd, None)
            if fd in rec.raw_fds:
                fid, key = rec.raw_fds.pop(fd)
                rec.add(("c", fid), "c:" + rec.tok(key))
            return os_close(fd)

        def mv(real, hard=False):
            def f(src, dst, *a, **k):
                sfd, dfd = k.get("src_dir_fd"), k.get("dst_dir_fd")
                if (sfd is not None and sfd not in rec.dir_fds) or (dfd is not None and dfd not in rec.dir_fds):
                    return real(src, dst, *a, **k)
                srcp, dstp = rec.at(src, sfd), rec.at(dst, dfd)
                s, d = rec.inside(srcp), rec.inside(dstp)
                proc = str(srcp).startswith("/proc/self/fd/") and hard
                if s is None and d is None:
                    return real(src, dst, *a, **k)
                if proc and d is not None:
                    # giving an open (unnamed) file a name
                    hit = rec.fid_of_fd(int(str(srcp).rsplit("/", 1)[1]))
                    rec.attempt("link")
                    td = rec.tok(entry(d))
                    res = real(src, dst, *a, **k)
                    if hit is None:
                        rec.add(("x", "link-of-unknown-fd"), "unknown-link")
                    else:
                        rec.add(("L", hit[0], rec.rel(d)), "r:%s:%s" % (rec.tok(hit[1]), td))
                        for px in list(rec.open_files):
                            if px._fid == hit[0]:
                                px.__dict__["_key"] = entry(d)
                    return res
                if os.path.lexists(srcp):
                    rec.attempt("link" if hard else "rename")
                ks = entry(s) if s else "<outside>"
                kd = entry(d) if d else "<outside>"
                ts, td = rec.tok(ks), rec.tok(kd)          # tokens before the call takes effect
                res = real(src, dst, *a, **k)
                if hard or s is None or d is None:
                    rec.add(("l", rec.rel(s), rec.rel(d)) if (s and d) else ("x", "move-outside"),
                            "unknown-link" if hard else "unknown-move-outside")
                else:
                    rec.add(("r", rec.rel(s), rec.rel(d)), "r:%s:%s" % (ts, td))
                    for px in list(rec.open_files):
                        if px._key == ks:
                            px.__dict__["_key"] = kd
                return res
            return f

        def rm(real):
            def f(p, *a, **k):
                dfd = k.get("dir_fd")
                if dfd is not None and dfd not in rec.dir_fds:
                    return real(p, *a, **k)
                ap = rec.inside(rec.at(p, dfd))
                if ap is None:
                    return real(p, *a, **k)
                if os.path.lexists(ap):
                    rec.attempt("unlink")
                t = rec.tok(entry(ap))
                res = real(p, *a, **k)
                rec.add(("u", rec.rel(ap)), "u:" + t)
                return res
            return f

        def sync(real):
            def f(fd):
                n = fd if isinstance(fd, int) else fd.fileno()
                hit = None
                for px in list(rec.open_files):
                    try:
                        if px._fh.fileno() == n:
                            hit = (px._fid, px._key)
                            break
                    except Exception:
                        pass
                if hit is None and n in rec.raw_fds:
                    hit = rec.raw_fds[n]
                if hit is not None:
                    rec.attempt("fsync")
                    rec.add(("s", hit[0]), "s:" + rec.tok(hit[1]))
                    return None        # recorded, not executed: irrelevant for process death, slow on real disks
                return real(fd)
            return f

        builtins.open = io.open = _io.open = open_
        os.open, os.fdopen, os.write, os.close = osopen, fdopen, oswrite, osclose
        os.replace, os.rename, os.link = mv(os.replace), mv(os.rename), mv(os.link, hard=True)
        os.unlink, os.remove = rm(os.unlink), rm(os.remove)
        os.fsync = sync(o_fsync)
        if o_fdatasync:
            os.fdatasync = sync(o_fdatasync)
        return self

    def __exit__(self, *exc):
        for m, n, v in self._orig:
            setattr(m, n, v)
        for n, v in self._generic:
            setattr(os, n, v)
        os.getpid = self._getpid
        for n, v in self._shutil.items():
            setattr(shutil, n, v)
        return False


# --------------------------------------------------------------------------- real storage helpers

def _conf(spec):
    """spec: {"name":..., "services":[(proto_name, identifier, credentials, password)], "info_name":...}"""
    from ipaddress import IPv4Address

    from pyatv import conf
    from pyatv.const import Protocol

    c = conf.AppleTV(IPv4Address("127.0.0.1"), spec.get("name", "dev"))
    for proto, ident, cred, pw in spec["services"]:
        c.add_service(conf.ManualService(ident, getattr(Protocol, proto), 0, {}, cred, pw))
    return c


def _populate(loop, storage, devices):
    for spec in devices:
        s = loop.run_until_complete(storage.get_settings(_conf(spec)))
        if spec.get("info_name") is not None:
            s.info.name = spec["info_name"]
        if spec.get("raop_password") is not None:
            s.protocols.raop.password = spec["raop_password"]


def _content(storage):
    """Canonical content of a storage: dumps of the devices that carry anything."""
    out = []
    for s in storage.settings:
        d = json.loads(s.json(exclude_defaults=True))
        if d != {}:
            out.append(d)
    return out


class _VirtualTime:
    """time.sleep does not wait but advances time.monotonic()/time.time() (patched from the
    harness): a load() that polls for something (a lock left by a dead process …) finishes at
    once and `slept` says how long it would have waited."""

    def __enter__(self):
        import time
        self._t = time
        self._orig = (time.sleep, time.monotonic, time.time)
        self.slept = 0.0
        o_mono, o_time = time.monotonic, time.time

        def sleep(dt):
            self.slept += max(0.0, float(dt))

        time.sleep = sleep
        time.monotonic = lambda: o_mono() + self.slept
        time.time = lambda: o_time() + self.slept
        return self

    def __exit__(self, *exc):
        self._t.sleep, self._t.monotonic, self._t.time = self._orig
        return False


LOAD_WAIT_LIMIT = 1.0      # seconds a load() may wait (virtual sleep; real seconds for event-loop waits)


def _fresh_load(loop, path):
    """The oracle's observation: load `path` into a brand-new FileStorage.  A load that has to
    wait (more than LOAD_WAIT_LIMIT) counts like one that raises: the file is not usable."""
    from pyatv.storage.file_storage import FileStorage

    st = FileStorage(path, loop)
    with _VirtualTime() as vt:
        try:
            loop.run_until_complete(asyncio.wait_for(st.load(), timeout=LOAD_WAIT_LIMIT + 2.0))
        except asyncio.TimeoutError:
            return ("raises", "load-does-not-finish")
        except Exception as e:  # observation, not a harness error
            return ("raises", type(e).__name__ + (":after-waiting-%ds" % vt.slept if vt.slept > LOAD_WAIT_LIMIT else ""))
    if vt.slept > LOAD_WAIT_LIMIT:
        return ("raises", "load-waits-%ds" % vt.slept)
    return ("ok", _content(st))


def old_bytes_of(loop, root, devs):
    """The settings file a completed save of `devs` produces (None = no file)."""
    from pyatv.storage.file_storage import FileStorage

    if devs is None:
        return None
    d = tempfile.mkdtemp(prefix="gen", dir=root)
    p = os.path.join(d, "pyatv.conf")
    st = FileStorage(p, loop)
    _populate(loop, st, _uniq(devs))
    if not st.changed:
        return (json.dumps({"version": 1, "devices": []}) + "\n").encode()
    loop.run_until_complete(st.save())
    data = read_through(p)
    shutil.rmtree(d, ignore_errors=True)
    return data


# --------------------------------------------------------------------------- crash materialisation

def _prefixes(n, full):
    if full:
        return list(range(n + 1))
    return sorted({0, 1, n // 2, n - 1, n} & set(range(n + 1)))


class _Replayer:
    """Re-executes a raw trace with real OS calls in a fresh copy of the initial sandbox;
    written-but-unflushed data is kept here and reaches the file on flush/close — or
    partially at the crash point."""

    def __init__(self, root, kind, target_bytes, extras):
        self.root = root
        _g, _c, self.settings = make_layout(root, kind, target_bytes, extras)
        self.fds, self.pend = {}, {}

    def p(self, rel):
        return os.path.join(self.root, rel)

    def step(self, op):
        k = op[0]
        if k == "o":
            fid, rel, trunc = op[1], op[2], op[3]
            if trunc:
                self.fds[fid] = open(self.p(rel), "wb", buffering=0)
            else:
                self.fds[fid] = os.fdopen(os.open(self.p(rel), os.O_WRONLY | os.O_CREAT, 0o600), "wb", buffering=0)
            self.pend[fid] = b""
        elif k == "t":
            self.fds[op[1]] = os.fdopen(os.open(self.p(op[2]), os.O_TMPFILE | os.O_WRONLY, 0o644), "wb", buffering=0)
            self.pend[op[1]] = b""
        elif k == "L":
            os.link("/proc/self/fd/%d" % self.fds[op[1]].fileno(), self.p(op[2]), follow_symlinks=True)
        elif k == "w":
            self.pend[op[1]] = self.pend.get(op[1], b"") + op[2]
        elif k in ("f", "c"):
            self._persist(op[1], None)
            if k == "c":
                fh = self.fds.pop(op[1], None)
                if fh:
                    fh.close()
                self.pend.pop(op[1], None)
        elif k == "s":
            pass
        elif k == "r":
            if os.path.lexists(self.p(op[1])):
                os.replace(self.p(op[1]), self.p(op[2]))
        elif k == "l":
            os.link(self.p(op[1]), self.p(op[2]))
        elif k == "u":
            if os.path.lexists(self.p(op[1])):
                os.unlink(self.p(op[1]))
        else:
            raise ValueError("unknown op %r" % (op,))

    def _persist(self, fid, k):
        data = self.pend.get(fid, b"")
        part = data if k is None else data[:k]
        fh = self.fds.get(fid)
        if fh is not None and part:
            fh.write(part)
        self.pend[fid] = data[len(part):]

    def target_fids(self):
        try:
            st = os.stat(self.settings)
        except OSError:
            return []
        out = []
        for fid, fh in self.fds.items():
            try:
                s2 = os.fstat(fh.fileno())
                if (s2.st_dev, s2.st_ino) == (st.st_dev, st.st_ino) and self.pend.get(fid):
                    out.append(fid)
            except OSError:
                pass
        return out

    def pending_lengths(self):
        t = self.target_fids()
        tp = sum(len(self.pend[f]) for f in t)
        others = max([len(v) for f, v in self.pend.items() if f not in t] + [0])
        return tp, others

    def crash(self, k):
        """The process dies now: `k` bytes of the target's pending data (or, if the target
        has none, of every other file's) have reached the disk."""
        t = self.target_fids()
        for fid in (t if t else list(self.pend)):
            self._persist(fid, k)
        self.close_all()

    def close_all(self):
        for fh in self.fds.values():
            fh.close()
        self.fds = {}


def _hex(b):
    return "~" if b is None else (b.hex() or "-")


# --------------------------------------------------------------------------- contents

def _dev(i, cred="cred", pw=None, name=None, extra=None):
    d = {"name": "dev%d" % i,
         "services": [("MRP", "mrp-%d" % i, cred, None), ("AirPlay", "AA:BB:CC:00:00:%02X" % i, cred and cred + "-ap", pw)]}
    if name is not None:
        d["info_name"] = name
    if extra is not None:
        d["raop_password"] = extra
    return d


BIG = [_dev(i, cred="c" * 40 + str(i), pw="pw%d" % i, name="Living room %d" % i) for i in range(6)]


def fixed_pairs():
    return [
        ("nofile->nonempty", None, [_dev(1)], None),
        ("emptylist->nonempty", [], [_dev(1), _dev(2, name="x")], None),
        ("grow", [_dev(1)], [_dev(1), _dev(2), _dev(3, pw="secret")], None),
        ("shrink", BIG, [_dev(0, cred="k")], None),
        ("unicode", [_dev(1, cred=UNI)], [_dev(1, cred=UNI), _dev(2, cred="", name=UNI * 3, extra=UNI)], None),
        ("nonempty->emptylist", [_dev(1), _dev(2)], [], None),
        ("same-length", [_dev(1, cred="aaaa")], [_dev(1, cred="bbbb")], None),
        ("failing-write", [_dev(1)], [_dev(1), _dev(2)], "fail"),
    ]


def random_pairs(rng, n):
    out = []
    for j in range(n):
        def devs():
            k = rng.choice([0, 1, 1, 2, 3, 5])
            return [_dev(rng.randrange(50), cred=rng.choice(["c", "", UNI, "x" * rng.randrange(1, 60)]),
                         pw=rng.choice([None, "pw", UNI]), name=rng.choice([None, "n", UNI, ""]))
                    for _ in range(k)]
        old = rng.choice([None, devs(), devs()])
        out.append(("random%d" % j, old, devs(), None))
    return out


def _uniq(devs):
    seen, out = set(), []
    for d in devs or []:
        if d["name"] not in seen:
            seen.add(d["name"])
            out.append(d)
    return out


# --------------------------------------------------------------------------- one scenario

def run_scenario(ctx, loop, sc, full_prefixes, lean_jobs, want_states=False):
    """sc = {"pair", "kind", "old_hex" (None = no file), "extras" {rel: hex}, "new" devs,
             "mode" None | "fail" | "fault:<n>:<errno>" | "short:<n>:<k>" (operation n, a write, accepts only k
             bytes), "expect_new_hex" (the file a complete save of the new content gives), "pid" (optional: os.getpid() as seen by save())}.
    Runs the real save() once and judges the recorded trace.  Returns
    {"n_ops", "states": distinct crash states [(target bytes, extras)]} or None."""
    from pyatv.storage.file_storage import FileStorage

    root = tempfile.mkdtemp(prefix="verif-c15-", dir="/tmp")
    cwd0 = os.getcwd()
    try:
        kind = sc.get("kind") or "plain"
        old_bytes = None if sc.get("old_hex") is None else bytes.fromhex(sc["old_hex"])
        extras = {r: bytes.fromhex(h) for r, h in (sc.get("extras") or {}).items()}
        mode = sc.get("mode")
        box = os.path.join(root, "box")
        given, cwd, abs_settings = make_layout(box, kind, old_bytes, extras)
        initial = listing(box)
        obs_old = _fresh_load(loop, abs_settings)
        if obs_old[0] != "ok":
            ctx.note("scenario-skipped:initial-state-does-not-load")
            return None
        content_old = obs_old[1]
        if cwd:
            os.chdir(cwd)
        st = FileStorage(given, loop)
        loop.run_until_complete(st.load())
        for s in list(st.settings):
            loop.run_until_complete(st.remove_settings(s))
        _populate(loop, st, _uniq(sc["new"]))
        content_new = _content(st)
        if not st.changed:
            ctx.note("scenario-skipped-unchanged")
            return None
        fault_at = fault_errno = None
        if isinstance(mode, str) and mode.startswith("fault:"):
            parts = mode.split(":")
            fault_at, fault_errno = int(parts[1]), int(parts[2]) if len(parts) > 2 else 16
        short = None
        if isinstance(mode, str) and mode.startswith("short:"):
            parts = mode.split(":")
            short = (int(parts[1]), int(parts[2]))
            fault_at = short[0]
        rec = Recorder(box, abs_settings, fail_write=(mode == "fail"), fault_at=None if short else fault_at,
                       fault_errno=fault_errno or 16, pid=sc.get("pid"), short=short)
        # tokens of files that exist before the save (leftovers) are fixed first
        init_words = []
        for rel, data in sorted(initial.items()):
            if isinstance(data, tuple):
                continue
            t = rec.tok(os.path.realpath(os.path.join(box, rel)))
            if t != "p0":
                init_words.append("%s:%s" % (t, data.hex() or "-"))
        raised = None
        with rec:
            try:
                loop.run_until_complete(st.save())
            except Exception as e:
                raised = type(e).__name__
        os.chdir(cwd0)
        fault = rec.fault_kind
        ctx.note("kind:" + kind)
        ctx.note(("fault:%s:" % fault if fault else "") + ("save-raised:%s" % raised if raised else "save-completed"))
        if fault_at is not None and fault is None:
            return {"n_ops": len(rec.raw), "states": []}       # the trace has no such operation
        final_listing = listing(box)
        final_target = read_through(abs_settings)
        trace, words = rec.raw, rec.words
        case = dict(sc, trace=words)
        if fault:
            case["injected_fault"] = ({"operation_index": short[0], "operation": "write accepts only %d bytes" % short[1]} if short else
                                      {"operation_index": fault_at, "operation": fault, "errno": fault_errno})
        ctx.note(("fault-" if fault else "") + "trace-shape:" + "".join(w[0] if not w.startswith("unknown") else "?" for w in words))

        unknown = [w for w in words if w.startswith("unknown-")]
        # --- completeness of the recording: re-executing it must reproduce the real directory
        okreplay = True
        try:
            rp = _Replayer(os.path.join(root, "full"), kind, old_bytes, extras)
            for op in trace:
                rp.step(op)
            rp.crash(None)
            if listing(rp.root) != final_listing:
                okreplay = False
        except (ValueError, OSError):
            okreplay = False
        if not okreplay or unknown:
            ctx.disagree(case, {"final_dir": {k: (v.hex() if isinstance(v, bytes) else v) for k, v in final_listing.items()}},
                         "recorded trace does not explain the directory / contains operations the model lacks: %s" % unknown,
                         where="trace recording")

        # --- completed save really saved; a save that raised kept old (or already has new)
        obs_final = _fresh_load(loop, abs_settings)
        if raised is None:
            if obs_final != ("ok", content_new):
                ctx.fail("save-complete:content-differs" + (":leftover-directory" if extras else "") + (":after-" + fault if fault else ""),
                         case, obs_final, content_new,
                         "after a save() that returned normally a fresh load does not give the saved content"
                         + (" (operation %d was a write that accepted only %d bytes)" % short if short else "")
                         + (" (the directory held leftovers of an earlier crashed save)" if extras else ""))
        else:
            if obs_final not in (("ok", content_old), ("ok", content_new)):
                ctx.fail("save-failed:old-content-lost", case, obs_final, content_old,
                         "save() raised %s and the file holds neither the previous nor the new content" % raised)

        # --- crash points: real step-by-step materialisation + oracle
        groups, states, seen_states = [], [], set()
        replayable = not any(op[0] == "x" for op in trace)
        for i in range(len(trace) + 1) if replayable else []:
            probe = _Replayer(os.path.join(root, "probe%d" % i), kind, old_bytes, extras)
            try:
                for op in trace[:i]:
                    probe.step(op)
                tp, others = probe.pending_lengths()
            except OSError:
                probe.close_all()
                break
            probe.close_all()
            shutil.rmtree(probe.root, ignore_errors=True)
            pend_len = tp if tp else others
            row = {}
            for k in _prefixes(pend_len, full_prefixes):
                r = _Replayer(os.path.join(root, "c%d_%d" % (i, k)), kind, old_bytes, extras)
                for op in trace[:i]:
                    r.step(op)
                r.crash(k)
                content = read_through(r.settings)
                obs = _fresh_load(loop, r.settings)
                if want_states:
                    lst = listing(r.root)
                    key = json.dumps({a: (b.hex() if isinstance(b, bytes) else b) for a, b in sorted(lst.items())})
                    if key not in seen_states:
                        seen_states.add(key)
                        ex = {a: b for a, b in lst.items() if isinstance(b, bytes) and os.path.realpath(os.path.join(r.root, a)) != os.path.realpath(r.settings)}
                        states.append((content, ex))
                shutil.rmtree(r.root, ignore_errors=True)
                inside = (0 < i < len(trace)) or k not in (0, pend_len)
                ctx.case([sc["pair"], kind, mode, sorted((sc.get("extras") or {}).items()), sc.get("old_hex"), i, k], inside)
                ctx.note("crash-point:%s" % ("boundary" if k in (0, pend_len) else "inside-write"))
                if tp:
                    row[k] = content
                else:
                    row.setdefault(0, content)
                if obs not in (("ok", content_old), ("ok", content_new)):
                    if obs[0] == "raises" and ("waiting" in obs[1] or obs[1].startswith("load-")):
                        sig = "save-crash:load-blocked"        # the file may be intact, but load() waits / gives up (stale lock …)
                    elif obs[0] == "raises":
                        sig = "save-crash:%s:load-raises" % ("empty-file" if content == b"" else "truncated-file" if content is not None and final_target is not None and len(content) < len(final_target) and final_target.startswith(content) else "damaged-file")
                    else:
                        sig = "save-crash:loads-neither-old-nor-new"
                    if fault:
                        sig += ":after-failed-" + fault
                    if kind != "plain":
                        sig += ":" + kind
                    if extras:
                        sig += ":leftover-directory"
                    ctx.fail(sig, dict(case, crash_after_ops=i, persisted_prefix=k, target_hex=_hex(content)),
                             obs, "load() gives the complete old or the complete new settings",
                             "%s%s%sprocess death after %d of %d file operations of save() (persisted prefix %d) leaves a settings "
                             "file that %s" % ("settings path kind %s: " % kind if kind != "plain" else "",
                                               "directory holds leftovers of an earlier crashed save: " if extras else "",
                                               ("with the write at file operation %d accepting only %d bytes, " % short if short else
                                                "with the %s at file operation %d failing (OSError %d), " % (fault, fault_at, fault_errno)) if fault else "",
                                               i, len(trace), k, "load() rejects" if obs[0] == "raises" else "is neither old nor new"))
            groups.append((tp, row))
        if replayable:
            want_new = bytes.fromhex(sc["expect_new_hex"]) if sc.get("expect_new_hex") is not None else final_target
            lean_jobs.append({"case": case, "old": old_bytes, "new": want_new if want_new is not None else b"",
                              "init": init_words, "words": words, "groups": groups, "raised": raised, "fault": fault,
                              "final": final_target, "unknown": bool(unknown)})
        return {"n_ops": len(trace), "states": states, "words": words,
                "final_hex": None if (final_target is None or raised is not None) else final_target.hex()}
    finally:
        os.chdir(cwd0)
        shutil.rmtree(root, ignore_errors=True)


def compare_with_model(ctx, jobs):
    jobs = [j for j in jobs if not j["unknown"]]
    lines = ["crashx p0 %s %s %s %s" % (_hex(j["old"]), j["new"].hex() or "-", ",".join(j["init"]) or "-", " ".join(j["words"]))
             for j in jobs]
    answers = ctx.lean(lines) if lines else []
    for j, ans in zip(jobs, answers):
        case, old, new, groups, fault = j["case"], j["old"], j["new"], j["groups"], j["fault"]
        ctx.validated()
        parts = ans.split(" ")
        if len(parts) != 3:
            ctx.disagree(case, "trace of %d ops" % len(j["words"]), ans, where="driver answer")
            continue
        safe, mfinal, mgroups = parts
        mgroups = [g.split(",") for g in mgroups.split("/")]
        ctx.note(("fault-" if fault else "") + "model-safeSave:%s" % safe)
        if mfinal != _hex(j["final"]):
            ctx.disagree(case, _hex(j["final"]), mfinal, where="target content after the complete trace")
        if len(mgroups) != len(groups):
            ctx.disagree(case, len(groups), len(mgroups), where="number of crash points")
            continue
        for i, ((tp, row), mg) in enumerate(zip(groups, mgroups)):
            if len(mg) != tp + 1:
                ctx.disagree(dict(case, crash_after_ops=i), tp + 1, len(mg), where="number of persisted prefixes of the target")
                continue
            for k, content in row.items():
                if mg[k] != _hex(content):
                    ctx.disagree(dict(case, crash_after_ops=i, prefix=k), _hex(content), mg[k], where="target content at crash point")
        # the theorem instance: a trace of the safe shape has only old/new crash contents
        allc = {c for g in mgroups for c in g}
        if safe == "1" and not allc <= {_hex(old), _hex(new)}:
            ctx.disagree(case, sorted(allc), "safeSaveB = true", where="safe_atomic instance (model inconsistent with its theorem)")
        if j["raised"] is None and safe != "1" and not fault:
            ctx.note("completed-save-not-of-safe-shape")


# --------------------------------------------------------------------------- enumeration

FAULT_ERRNOS = {"rename": [16, 18, 13, 1], "link": [16, 18], "write": [16, 28], "flush": [16, 28], "fsync": [16, 28],
                "close": [16, 28], "open": [16, 13], "unlink": [16]}


def with_faults(ctx, loop, sc, full, jobs, want_states=False):
    """ordinary run, then one run per recorded operation with a single injected fault"""
    res = run_scenario(ctx, loop, sc, full, jobs, want_states=want_states)
    if res is None or sc.get("mode") is not None:
        return res
    expect = res.get("final_hex")
    sc = dict(sc, expect_new_hex=expect) if expect is not None else sc
    # partial success: each recorded write accepts only k bytes (0, 1, half, all but one)
    for j, w in enumerate(res.get("words") or []):
        if not w.startswith("w:"):
            continue
        n = len(w.split(":")[2]) // 2 if w.split(":")[2] != "-" else 0
        for k in sorted({0, 1, n // 2, n - 1} & set(range(max(n, 1)))):
            run_scenario(ctx, loop, dict(sc, mode="short:%d:%d" % (j, k)), False, jobs)
    for j in range(res["n_ops"]):
        if len(ctx.failures) >= 40:
            break
        first = dict(sc, mode="fault:%d:16" % j)
        jobs_before = len(jobs)
        run_scenario(ctx, loop, first, False, jobs)
        kind = jobs[-1]["fault"] if len(jobs) > jobs_before else None
        for errno_ in FAULT_ERRNOS.get(kind, [16])[1:]:
            run_scenario(ctx, loop, dict(sc, mode="fault:%d:%d" % (j, errno_)), False, jobs)
    return res


def record_save(loop, root, sub, kind, old_bytes, new_devs, pid, other=None):
    """one real save() of `new_devs` over the old file, by a process that sees `pid`:
    (raw trace, canonical new content, exception class or None)"""
    from pyatv.storage.file_storage import FileStorage

    box = os.path.join(root, sub)
    given, cwd, abs_settings = make_layout(box, kind, old_bytes, {})
    if other:
        # a second settings file in the same directory
        given = abs_settings = os.path.join(os.path.dirname(abs_settings), other)
        cwd = None
        if old_bytes is not None:
            with open(abs_settings, "wb") as f:
                f.write(old_bytes)
    cwd0 = os.getcwd()
    try:
        if cwd:
            os.chdir(cwd)
        st = FileStorage(given, loop)
        loop.run_until_complete(st.load())
        for s_ in list(st.settings):
            loop.run_until_complete(st.remove_settings(s_))
        _populate(loop, st, _uniq(new_devs))
        content_new = _content(st)
        if not st.changed:
            return None
        rec = Recorder(box, abs_settings, pid=pid)
        raised = None
        with rec:
            try:
                loop.run_until_complete(st.save())
            except Exception as e:
                raised = type(e).__name__
        return rec.raw, content_new, raised
    finally:
        os.chdir(cwd0)


def concurrent_savers(ctx, loop, sc, new_b, only=None):
    """Two processes (different pids — e.g. a parent and a forked worker) own a FileStorage on
    the same settings file and save at the same time; the second one is KILLED mid-save.  The
    two really recorded traces are interleaved at every operation boundary: A runs i operations,
    B runs j operations and dies with k bytes of its unflushed data persisted, A runs to the end.
    The file must afterwards load and hold the old, A's or B's complete content."""
    root = tempfile.mkdtemp(prefix="verif-c15-", dir="/tmp")
    try:
        kind = sc.get("kind") or "plain"
        old_bytes = None if sc.get("old_hex") is None else bytes.fromhex(sc["old_hex"])
        ra = record_save(loop, root, "A", kind, old_bytes, sc["new"], os.getpid())
        rb = record_save(loop, root, "B", kind, old_bytes, new_b, os.getpid() + 1)
        if ra is None or rb is None or ra[2] or rb[2] or any(op[0] == "x" for op in ra[0] + rb[0]):
            ctx.note("concurrent-savers:skipped")
            return
        ta = ra[0]
        tb = [((op[0], op[1] + 1000) + tuple(op[2:])) if op[0] in "owfsc" else op for op in rb[0]]
        box0 = os.path.join(root, "old")
        _g, _c, abs0 = make_layout(box0, kind, old_bytes, {})
        content_old = _fresh_load(loop, abs0)[1]
        allowed = [("ok", content_old), ("ok", ra[1]), ("ok", rb[1])]
        n = 0
        for i in range(len(ta) + 1):
            for j in range(1, len(tb) + 1):
                for k in (0, 1, 40):
                    if only is not None and [i, j, k] != only:
                        continue
                    n += 1
                    r = _Replayer(os.path.join(root, "x%d" % n), kind, old_bytes, {})
                    try:
                        for op in ta[:i]:
                            r.step(op)
                        for op in tb[:j]:
                            r.step(op)
                        for fid in [f for f in list(r.pend) if f >= 1000]:      # B is killed
                            r._persist(fid, k)
                            r.pend.pop(fid, None)
                            fh = r.fds.pop(fid, None)
                            if fh:
                                fh.close()
                        for op in ta[i:]:
                            try:
                                r.step(op)
                            except OSError:
                                break          # A's operation fails in this interleaving: A's save() raises here
                    finally:
                        r.close_all()
                    content = read_through(r.settings)
                    obs = _fresh_load(loop, r.settings)
                    shutil.rmtree(r.root, ignore_errors=True)
                    ctx.case(["concurrent", sc["pair"], i, j, k], True)
                    ctx.note("concurrent-savers:interleaving")
                    if obs not in allowed:
                        ctx.fail("concurrent-savers:%s" % ("load-raises" if obs[0] == "raises" else "neither-old-nor-new"),
                                 {"pair": sc["pair"], "kind": kind, "old_hex": sc.get("old_hex"), "new": sc["new"], "new_b": new_b,
                                  "concurrent": [i, j, k], "target_hex": _hex(content)},
                                 obs, "load() gives the complete old content or the complete content of one of the two savers",
                                 "two processes save the same settings file; the second is killed after %d of its %d file operations "
                                 "(persisted prefix %d) while the first is after %d of its %d: the settings file afterwards %s"
                                 % (j, len(tb), k, i, len(ta), "does not load" if obs[0] == "raises" else "is neither old nor new"))
    finally:
        shutil.rmtree(root, ignore_errors=True)


def sibling_savers(ctx, loop, sc, new_b, only=None):
    """Two FileStorage objects of ONE process for two DIFFERENT settings files in the same
    directory save at overlapping times (save() runs in executor threads); the process may be
    killed.  The two really recorded traces are interleaved at every operation boundary: A runs
    i operations, B runs j operations (all of them, or is cut off there with k bytes of unflushed
    data persisted), A runs to the end.  Each file must load and hold ITS old or ITS new content."""
    root = tempfile.mkdtemp(prefix="verif-c15-", dir="/tmp")
    other = "other.conf"
    try:
        old_bytes = None if sc.get("old_hex") is None else bytes.fromhex(sc["old_hex"])
        ra = record_save(loop, root, "A", "plain", old_bytes, sc["new"], None)
        rb = record_save(loop, root, "B", "plain", old_bytes, new_b, None, other=other)
        if ra is None or rb is None or ra[2] or rb[2] or any(op[0] == "x" for op in ra[0] + rb[0]):
            ctx.note("sibling-savers:skipped")
            return
        ta = ra[0]
        tb = [((op[0], op[1] + 1000) + tuple(op[2:])) if op[0] in "owfsc" else op for op in rb[0]]
        extras = {} if old_bytes is None else {os.path.join("live", other): old_bytes}
        box0 = os.path.join(root, "old")
        _g, _c, abs0 = make_layout(box0, "plain", old_bytes, extras)
        content_old = _fresh_load(loop, abs0)[1]
        ok_a = [("ok", content_old), ("ok", ra[1])]
        ok_b = [("ok", content_old), ("ok", rb[1])]
        n = 0
        for i in range(len(ta) + 1):
            for j in range(1, len(tb) + 1):
                for k in ((0, 1, 40) if j < len(tb) else (None,)):
                    if only is not None and [i, j, k] != only:
                        continue
                    if len(ctx.failures) >= 40 and only is None:
                        return
                    n += 1
                    r = _Replayer(os.path.join(root, "x%d" % n), "plain", old_bytes, extras)
                    try:
                        for op in ta[:i]:
                            r.step(op)
                        for op in tb[:j]:
                            r.step(op)
                        dead = k is not None
                        if dead:        # the process dies here: nothing of A's or B's buffers survives beyond k bytes of B's
                            for fid in list(r.pend):
                                r._persist(fid, k if fid >= 1000 else 0)
                        else:
                            for op in ta[i:]:
                                try:
                                    r.step(op)
                                except OSError:
                                    break
                    finally:
                        r.close_all()
                    obs_a = _fresh_load(loop, r.settings)
                    obs_b = _fresh_load(loop, os.path.join(os.path.dirname(r.settings), other))
                    shutil.rmtree(r.root, ignore_errors=True)
                    ctx.case(["siblings", sc["pair"], i, j, k], True)
                    ctx.note("sibling-savers:interleaving")
                    for which, obs, allowed in (("first", obs_a, ok_a), ("second", obs_b, ok_b)):
                        if obs not in allowed:
                            ctx.fail("sibling-savers:%s-file:%s" % (which, "load-raises" if obs[0] == "raises" else "neither-old-nor-new"),
                                     {"pair": sc["pair"], "old_hex": sc.get("old_hex"), "new": sc["new"], "new_b": new_b, "siblings": [i, j, k]},
                                     obs, "each settings file loads and holds its own complete old or new content",
                                     "two storages of one process save two different files of one directory at overlapping times (first after "
                                     "%d of %d operations, second after %d of %d%s): the %s file afterwards %s"
                                     % (i, len(ta), j, len(tb), ", then the process dies" if dead else "", which,
                                        "does not load" if obs[0] == "raises" else "holds content that is neither its old nor its new one"))
    finally:
        shutil.rmtree(root, ignore_errors=True)


def second_saves(ctx, loop, sc, states, jobs, limit):
    """every distinct crash state of the first save is the initial directory of a second
    save of shorter and of longer content"""
    states = sorted(states, key=lambda s: (-len(s[1]), -sum(len(v) for v in s[1].values())))[:limit]
    for n, (target, extras) in enumerate(states):
        for tag, new2 in (("shorter", [_dev(0, cred="k")]), ("longer", BIG[:3] + [_dev(7, cred=UNI)])):
            sc2 = {"pair": "%s+second:%s" % (sc["pair"], tag), "kind": sc.get("kind") or "plain",
                   "old_hex": None if target is None else target.hex(),
                   "extras": {r: v.hex() for r, v in extras.items()}, "new": new2, "mode": None, "pid": os.getpid()}
            ctx.note("second-save:%s:leftovers=%d" % (tag, len(extras)))
            run_scenario(ctx, loop, sc2, False, jobs)


class _Enough(Exception):
    pass


def _guard(ctx, t0):
    """run-away protection: stop generating once the oracle has failing inputs, or when the
    tier's time budget for generating cases is used up (noted, not a verdict)"""
    import time
    if len(ctx.failures) >= 40:
        ctx.note("generation-stopped:failing-inputs-found")
        raise _Enough()
    if time.time() - t0 > (480 if ctx.thorough else 100):
        ctx.note("generation-stopped:time-budget")
        raise _Enough()


def run(ctx, only=None):
    import time
    t0 = time.time()
    loop = asyncio.new_event_loop()
    jobs = []
    try:
        _run(ctx, only, loop, jobs, t0)
    except _Enough:
        pass
    finally:
        loop.run_until_complete(loop.shutdown_default_executor())
        loop.close()
    if jobs:
        compare_with_model(ctx, jobs)


def _run(ctx, only, loop, jobs, t0):
    if True:
        if only is not None:
            for sc in only:
                run_scenario(ctx, loop, sc, False, jobs)
        else:
            gen = tempfile.mkdtemp(prefix="verif-c15-gen-", dir="/tmp")
            try:
                pairs = fixed_pairs() + random_pairs(ctx.rng.fork("pairs"), ctx.scale(2, 30))
                scs = []
                for label, old, new, mode in pairs:
                    ob = old_bytes_of(loop, gen, old)
                    scs.append({"pair": label, "kind": "plain", "old_hex": None if ob is None else ob.hex(), "extras": {},
                                "new": new, "mode": mode})
            finally:
                shutil.rmtree(gen, ignore_errors=True)
            by_label = {s["pair"]: s for s in scs}
            chain = {"grow", "shrink", "unicode", "nofile->nonempty"} | ({s["pair"] for s in scs if s["pair"].startswith("random")} if ctx.thorough else set())
            for idx, sc in enumerate(scs):
                _guard(ctx, t0)
                try:
                    res = with_faults(ctx, loop, sc, ctx.thorough and idx % 3 == 0, jobs, want_states=sc["pair"] in chain)
                    if res and sc["pair"] in chain:
                        second_saves(ctx, loop, sc, res["states"], jobs, ctx.scale(3, 8))
                except _Enough:
                    raise
                except Exception as e:  # changed code must not crash the harness
                    ctx.disagree({"pair": sc["pair"]}, "harness step raised %s: %s" % (type(e).__name__, e), "n/a", where="run_scenario")
            kind_pairs = ["grow", "nofile->nonempty"] + (["shrink", "unicode", "nonempty->emptylist", "random0", "random1"] if ctx.thorough else [])
            for kind in PATH_KINDS[1:]:
                for label in kind_pairs:
                    if label not in by_label:
                        continue
                    _guard(ctx, t0)
                    try:
                        with_faults(ctx, loop, dict(by_label[label], kind=kind), False, jobs)
                    except Exception as e:
                        ctx.disagree({"pair": label, "kind": kind}, "harness step raised %s: %s" % (type(e).__name__, e), "n/a", where="run_scenario")
            for label, nb in (("grow", [_dev(9, cred="worker")]), ("shrink", BIG[:2])) + ((("unicode", [_dev(1, cred=UNI * 5)]),) if ctx.thorough else ()):
                try:
                    concurrent_savers(ctx, loop, by_label[label], nb)
                except Exception as e:
                    ctx.disagree({"pair": label, "concurrent": True}, "harness step raised %s: %s" % (type(e).__name__, e), "n/a", where="concurrent_savers")
            for label, nb in (("grow", [_dev(9, cred="other-file")]), ("shrink", BIG[:2])):
                _guard(ctx, t0)
                try:
                    sibling_savers(ctx, loop, by_label[label], nb)
                except Exception as e:
                    ctx.disagree({"pair": label, "siblings": True}, "harness step raised %s: %s" % (type(e).__name__, e), "n/a", where="sibling_savers")
            for kind in TARGET_KINDS:
                for label in ["grow", "shrink"]:
                    _guard(ctx, t0)
                    try:
                        (with_faults if label == "grow" else run_scenario)(ctx, loop, dict(by_label[label], kind=kind), False, jobs)
                    except _Enough:
                        raise
                    except Exception as e:
                        ctx.disagree({"pair": label, "kind": kind}, "harness step raised %s: %s" % (type(e).__name__, e), "n/a", where="run_scenario")
            try:
                # a very large existing file (hundreds of devices) replaced by a small one and vice versa
                gen2 = tempfile.mkdtemp(prefix="verif-c15-gen-", dir="/tmp")
                large = [_dev(i, cred="L" * 50 + str(i), pw="pw%d" % i, name="Room %d" % i) for i in range(ctx.scale(150, 400))]
                lb = old_bytes_of(loop, gen2, large)
                shutil.rmtree(gen2, ignore_errors=True)
                run_scenario(ctx, loop, {"pair": "large->small", "kind": "plain", "old_hex": lb.hex(), "extras": {}, "new": [_dev(0, cred="k")], "mode": None}, False, jobs)
                if ctx.thorough:
                    run_scenario(ctx, loop, {"pair": "small->large", "kind": "plain", "old_hex": by_label["grow"]["old_hex"], "extras": {}, "new": large, "mode": None}, False, jobs)
            except _Enough:
                raise
            except Exception as e:
                ctx.disagree({"pair": "large"}, "harness step raised %s: %s" % (type(e).__name__, e), "n/a", where="run_scenario")
            for kind in NAME_KINDS:
                for label in ["grow", "shrink"]:
                    try:
                        run_scenario(ctx, loop, dict(by_label[label], kind=kind), False, jobs)
                    except Exception as e:
                        ctx.disagree({"pair": label, "kind": kind}, "harness step raised %s: %s" % (type(e).__name__, e), "n/a", where="run_scenario")


def replay(ctx, failure):
    case = failure["case"]
    if case.get("siblings"):
        c2 = type(ctx)(ctx.prop, ctx.tier, ctx.seed, ctx.driver.driver_rel)
        loop = asyncio.new_event_loop()
        try:
            sibling_savers(c2, loop, case, case["new_b"], only=case["siblings"])
        finally:
            loop.run_until_complete(loop.shutdown_default_executor())
            loop.close()
        return bool(c2.failures)
    if case.get("concurrent"):
        c2 = type(ctx)(ctx.prop, ctx.tier, ctx.seed, ctx.driver.driver_rel)
        loop = asyncio.new_event_loop()
        try:
            concurrent_savers(c2, loop, case, case["new_b"], only=case["concurrent"])
        finally:
            loop.run_until_complete(loop.shutdown_default_executor())
            loop.close()
        return bool(c2.failures)
    sc = {k: case.get(k) for k in ("pair", "kind", "old_hex", "extras", "new", "mode", "pid", "expect_new_hex")}
    c2 = type(ctx)(ctx.prop, ctx.tier, ctx.seed, ctx.driver.driver_rel)
    run(c2, only=[sc])
    return bool(c2.failures)
