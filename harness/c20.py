"""C20 — volume stays within 0–100 percent end to end: correspondence + direct oracle.

Real code driven (in-process, from $VERIF_REPO):
* pyatv.support.map_range, pyatv.protocols.airplay.utils.pct_to_dbfs / dbfs_to_pct;
* pyatv.core.facade.FacadeAppleTV / FacadeAudio, with the protocol Audio instances added
  through `add_protocol(SetupData(...))` + `connect()` exactly as pyatv.connect does;
* a recording stub Audio (guards), the real pyatv.protocols.companion.CompanionAudio (fake
  CompanionAPI playing the device), the real pyatv.protocols.raop.RaopAudio over the real
  RaopPlaybackManager / StreamContext / StreamClient / RaopStream.stream_file (fake RTSP
  session = the receiver, audio file and network parts of the client stubbed), the real
  pyatv.protocols.mrp.MrpAudio (fake MrpProtocol: records sends, plays the device).

Floats never cross the Lean wire: a float is `nan`, `+inf`, `-inf` or the exact rational
`float.as_integer_ratio()`.  The model is run twice: with IEEE binary64 round-to-nearest
(`f`; the implementation must agree *exactly*) and in exact arithmetic (`x`; the
implementation must agree within TOL_* — equality is not claimed for floats).
"""
import asyncio
import math
import struct
from fractions import Fraction

from .core import vloop

RULE = ("inputs: IEEE special values (NaN, +-inf, +-0.0, subnormals, neighbours of 0/100/-30/-144), a dense grid "
        "over and around [0,100] % and [-30,0] dBFS, seeded random doubles; histories: seeded random sequences of "
        "set/up/down/read/device-report over the real facade+RaopAudio and facade+MrpAudio (specials included), with RAOP "
        "stream starts (real RaopStream.stream_file + real StreamClient.send_audio; receiver advertising any / no initialVolume, "
        "accepting or rejecting SET_PARAMETER volume before RECORD; level never known / user-set / reported; every fixed level incl. "
        "0.0 and 100.0 set-then-stream-then-read), operations issued while another one is suspended (at connect / info / "
        "open-source of stream_file; during the SET_PARAMETER round trip of a set_volume that is then refused or accepted), "
        "two device objects alive in one process with interleaved operations, "
        "and MRP volume updates for other output-device UIDs interleaved, plus a "
        "BFS over every state reachable by volume_up/volume_down; non-trivial = input at or outside a boundary, a "
        "special value, or a history containing a rejected set, a clamped step or an out-of-range report; distinct = "
        "(kind, exact input)")
ASSUMPTIONS = [
    "an operation issued while another one is suspended in an await is run inline at that await by the harness (one deterministic interleaving per suspension point; the event loop is run before the suspended operation continues)",
    "IEEE-754 binary64 round-to-nearest-even is monotone (the Lean theorems need a monotone rounding that is exact on 0,1,30,100,3000,-30; exactness on these is proved for the driver's rne)",
    "float read-back is compared within a tolerance (4 ulp at 100 for one conversion, 8 ulp for set-then-read); exact equality is proved in exact arithmetic only",
    "no operation of the volume path overflows binary64 (every operand has passed a range guard)",
    "MRP relative volume control (HID key presses) forwards no level and is not modelled; the MRP device is played by the harness (echoes or reports arbitrary levels)",
]
TRUSTED = ["fake RTSP session / fake MrpProtocol / recording stub Audio of harness/c20.py",
           "CPython float arithmetic = IEEE-754 binary64; math.isclose as documented"]

ULP100 = 2.0 ** -46          # ulp of binary64 in [64, 128)
ULP30 = 2.0 ** -48           # ulp in [16, 32)
TOL_DBFS = Fraction(4 * ULP30)
TOL_PCT = Fraction(4 * ULP100)
TOL_READBACK = 8 * ULP100

NAN, INF = float("nan"), float("inf")


# ---------------------------------------------------------------------------- wire format
def tok(x):
    x = float(x)
    if math.isnan(x):
        return "nan"
    if math.isinf(x):
        return "+inf" if x > 0 else "-inf"
    n, d = x.as_integer_ratio()
    return f"{n}/{d}"


def untok(s):
    """token -> float('nan') | +-inf | Fraction"""
    if s == "nan":
        return NAN
    if s == "+inf":
        return INF
    if s == "-inf":
        return -INF
    n, d = s.split("/")
    return Fraction(int(n), int(d))


def same(tok_model, x):
    """exact equality of a model token and an implementation float (0.0 == -0.0)"""
    m = untok(tok_model)
    x = float(x)
    if isinstance(m, float):
        return (math.isnan(m) and math.isnan(x)) or m == x
    return math.isfinite(x) and Fraction(x) == m


def err_class(exc):
    from pyatv import exceptions
    if isinstance(exc, exceptions.ProtocolError):
        return "protocol"
    if isinstance(exc, ValueError):
        return "value"
    return type(exc).__name__


def call(fn, *args):
    try:
        return "ok", fn(*args)
    except Exception as exc:  # observation, not a crash
        return "err", err_class(exc)


def in_pct(x):
    return isinstance(x, (int, float)) and not isinstance(x, bool) and 0.0 <= x <= 100.0


def good_dbfs(x, utils):
    return isinstance(x, float) and (x == -144.0 or utils.DBFS_MIN <= x <= utils.DBFS_MAX)


# ---------------------------------------------------------------------------- inputs
def neighbours(x, n=3):
    out = [x]
    lo = hi = x
    for _ in range(n):
        lo, hi = math.nextafter(lo, -INF), math.nextafter(hi, INF)
        out += [lo, hi]
    return out


def specials():
    vals = [NAN, INF, -INF, 0.0, -0.0, 5e-324, -5e-324, 2.2250738585072014e-308, 1e-300, -1e-300, 1e-9, 1e-12,
            1.7976931348623157e308, -1.7976931348623157e308, 1e30, -1e30, 33.0, 50.0, 1 / 3, 100 / 3, 99.99999999999999]
    for c in (0.0, 100.0, -30.0, -144.0, 5.0, 95.0, 2.5, 97.5, 1.0, -1.0, 30.0, 105.0, -5.0, 101.0):
        vals += neighbours(c)
    return vals


def grid(lo, hi, per_unit):
    n = int(round((hi - lo) * per_unit))
    return [lo + i / per_unit for i in range(n + 1)]


def random_doubles(rng, n, lo, hi):
    out = []
    for _ in range(n):
        k = rng.random()
        if k < 0.7:
            out.append(rng.uniform(lo, hi))
        elif k < 0.8:
            out.append(rng.uniform(lo, hi) * 10 ** -rng.randint(1, 320))       # tiny, subnormal
        elif k < 0.9:
            out.append(struct.unpack("<d", struct.pack("<Q", rng.getrandbits(64)))[0])  # any bit pattern
        else:
            out.append(rng.choice([lo, hi, 0.0]) + rng.uniform(-1, 1) * 10 ** -rng.randint(0, 16))
    return out


# ---------------------------------------------------------------------------- conversions
def conv_problems(x, utils):
    """Direct oracle for one percent input on the real conversion functions."""
    problems = []
    k, d = call(utils.pct_to_dbfs, x)
    if in_pct(x):
        if k != "ok":
            problems.append(("conv:in-range-raises", f"pct_to_dbfs({x!r}) raised {d}"))
        elif not good_dbfs(d, utils):
            problems.append(("conv:dbfs-out-of-range", f"pct_to_dbfs({x!r}) = {d!r}"))
        else:
            k2, r = call(utils.dbfs_to_pct, d)
            if k2 != "ok":
                problems.append(("conv:in-range-raises", f"dbfs_to_pct({d!r}) raised {r}"))
            elif not in_pct(r):
                problems.append(("conv:pct-out-of-range", f"dbfs_to_pct(pct_to_dbfs({x!r})) = {r!r}"))
            elif abs(r - x) > TOL_READBACK:
                problems.append(("conv:roundtrip", f"dbfs_to_pct(pct_to_dbfs({x!r})) = {r!r}, off by {abs(r - x):.3g}"))
    elif k == "ok" and not good_dbfs(d, utils):
        problems.append(("conv:dbfs-out-of-range", f"pct_to_dbfs({x!r}) = {d!r} for an out-of-range level"))
    return problems


def check_conversions(ctx, utils, support):
    rng = ctx.rng.fork("conv")
    per_unit = ctx.scale(100, 1000)
    nrand = ctx.scale(20000, 100000)
    pct_in = specials() + grid(-1.0, 101.0, per_unit) + random_doubles(rng, nrand, -1.0, 101.0)
    dbfs_in = specials() + grid(-31.0, 1.0, per_unit) + random_doubles(rng, nrand // 4, -31.0, 1.0)
    ctx.note("conv:pct-inputs", len(pct_in))
    ctx.note("conv:dbfs-inputs", len(dbfs_in))

    lines, meta = [], []
    for x in pct_in:
        k, d = call(utils.pct_to_dbfs, x)
        lines += [f"p2d f {tok(x)}", f"p2d x {tok(x)}", f"isclose {tok(x)}"]
        meta.append(("p2d", x, k, d))
        if k == "ok" and not math.isnan(d):
            k2, r = call(utils.dbfs_to_pct, d)
            lines.append(f"d2p f {tok(d)}")
            meta.append(("rt", d, k2, r))
    for y in dbfs_in:
        k, r = call(utils.dbfs_to_pct, y)
        lines += [f"d2p f {tok(y)}", f"d2p x {tok(y)}"]
        meta.append(("d2p", y, k, r))
    answers = iter(ctx.lean(lines))

    worst = {"p2d": 0.0, "d2p": 0.0}
    for kind, x, k, res in meta:
        special = not math.isfinite(x) or x in (0.0, 100.0, -30.0, -144.0) or not (0.0 < x < 100.0 if kind == "p2d" else -30.0 < x < 0.0)
        ctx.case([kind, tok(x)], special, sample={"kind": kind, "x": repr(x), "result": repr(res)} if special else None)
        impl = f"ok:{tok(res)}" if k == "ok" else f"err:{res}"
        mf = next(answers)
        if kind in ("p2d", "d2p"):
            mx = next(answers)
        ctx.note(f"conv:{kind}:{'ok' if k == 'ok' else 'err'}")
        # binary64 model: exact agreement
        agree = (mf == impl) or (k == "ok" and mf.startswith("ok:") and same(mf[3:], res))
        if not agree:
            ctx.disagree({"kind": kind, "x": tok(x), "float": repr(x)}, impl, mf, where=f"{kind} binary64 model")
        ctx.validated()
        if kind == "rt":
            continue
        # exact model: same outcome class, value within tolerance
        if kind == "p2d":
            close = next(answers)
            if (close == "1") != math.isclose(x, 0.0):
                ctx.disagree({"kind": "isclose", "x": tok(x)}, str(math.isclose(x, 0.0)), close, where="math.isclose(x, 0.0)")
        if mx.startswith("ok:") and k == "ok" and math.isfinite(res):
            diff = abs(Fraction(res) - untok(mx[3:]))
            tol = TOL_DBFS if kind == "p2d" else TOL_PCT
            worst[kind] = max(worst[kind], float(diff))
            if diff > tol:
                ctx.disagree({"kind": kind, "x": tok(x), "float": repr(x)}, impl, mx,
                             where=f"{kind} exact model: off by {float(diff):.3g} > {float(tol):.3g}")
        elif (mx.startswith("ok:") != (k == "ok")) or (not mx.startswith("ok:") and mx != impl):
            ctx.disagree({"kind": kind, "x": tok(x), "float": repr(x)}, impl, mx, where=f"{kind} exact model")
        ctx.validated()
    ctx.notes["max_abs_error_vs_exact"] = {"pct_to_dbfs": worst["p2d"], "dbfs_to_pct": worst["d2p"],
                                           "tolerance": {"dbfs": float(TOL_DBFS), "pct": float(TOL_PCT), "readback": TOL_READBACK}}

    # direct oracle: range, round trip, monotonicity (independent of the model)
    for x in pct_in:
        for sig, what in conv_problems(x, utils):
            ctx.fail(sig, {"kind": "conv", "x": repr(x), "hex": float(x).hex()}, what, "see property C20", what)
    for name, fn, xs, lo, hi in (("pct_to_dbfs", utils.pct_to_dbfs, pct_in, 0.0, 100.0),
                                 ("dbfs_to_pct", utils.dbfs_to_pct, dbfs_in, -INF, 0.0)):
        pts = sorted({float(x) for x in xs if lo <= x <= hi})
        prev = None
        for x in pts:
            k, v = call(fn, x)
            if k != "ok":
                ctx.fail(f"conv:in-range-raises", {"kind": "mono", "fn": name, "x": repr(x), "hex": x.hex()}, f"raised {v}",
                         "a result", f"{name}({x!r}) raised {v}")
                continue
            if prev is not None and not (prev[1] <= v):
                ctx.fail("conv:not-monotone", {"kind": "mono", "fn": name, "x": repr(prev[0]), "y": repr(x),
                                               "hex": prev[0].hex(), "hexy": x.hex()},
                         f"{name}({prev[0]!r}) = {prev[1]!r} > {name}({x!r}) = {v!r}", "monotone", f"{name} is not monotone")
            prev = (x, v)

    # map_range with other ranges (valid and invalid), binary64 model, exact agreement
    rng = ctx.rng.fork("map")
    cases = []
    for _ in range(ctx.scale(1500, 15000)):
        pool = [0.0, 1.0, -1.0, 100.0, -30.0, 0.5, rng.uniform(-1000, 1000), float(rng.randint(-50, 50))]
        a, b, c, d = (rng.choice(pool) for _ in range(4))
        if rng.chance(0.75):      # mostly valid ranges, so that the arithmetic is exercised
            a, b = min(a, b), max(a, b)
            c, d = min(c, d), max(c, d)
        v = rng.choice([a, b, NAN, INF, -INF, rng.uniform(min(a, b) - 1, max(a, b) + 1), (a + b) / 2])
        cases.append((v, a, b, c, d))
    answers = ctx.lean([f"map f {tok(v)} {tok(a)} {tok(b)} {tok(c)} {tok(d)}" for v, a, b, c, d in cases])
    for (v, a, b, c, d), mf in zip(cases, answers):
        k, res = call(support.map_range, v, a, b, c, d)
        impl = f"ok:{tok(res)}" if k == "ok" else f"err:{res}"
        ctx.case(["map", tok(v), tok(a), tok(b), tok(c), tok(d)], k != "ok" or not math.isfinite(v))
        ctx.note(f"map:{'ok' if k == 'ok' else 'err'}")
        if not (mf == impl or (k == "ok" and mf.startswith("ok:") and same(mf[3:], res))):
            ctx.disagree({"kind": "map", "args": [tok(t) for t in (v, a, b, c, d)]}, impl, mf, where="map_range binary64 model")
        ctx.validated()


# ---------------------------------------------------------------------------- the device object
class StubAudio:
    """Recording protocol Audio implementation: reports whatever it is told to."""

    def __init__(self):
        self.level = 0.0
        self.received = []

    @property
    def volume(self):
        return self.level

    async def set_volume(self, level):
        self.received.append(level)

    async def volume_up(self):
        self.received.append("up")

    async def volume_down(self):
        self.received.append("down")


async def make_atv(core_dispatcher, protocol, audio):
    """FacadeAppleTV with one protocol providing Audio, set up the way pyatv.connect does."""
    from ipaddress import IPv4Address
    from pyatv import conf, interface
    from pyatv.core import SetupData
    from pyatv.core.facade import FacadeAppleTV
    from pyatv.settings import Settings

    async def _connect():
        return True

    atv = FacadeAppleTV(conf.AppleTV(IPv4Address("127.0.0.1"), "verif"), None, core_dispatcher, Settings())
    atv.add_protocol(SetupData(protocol, _connect, lambda: set(), lambda: {}, {interface.Audio: audio}, set()))
    await atv.connect()
    return atv


async def guard_case(x, protocol=None, cache=None):
    """One float through both facade guards -> (read outcome, set outcome, levels received)."""
    from pyatv.const import Protocol
    from pyatv.core import CoreStateDispatcher

    protocol = protocol or Protocol.MRP
    if cache is not None and protocol in cache:
        atv, stub = cache[protocol]
        stub.received = []
    else:
        stub = StubAudio()
        atv = await make_atv(CoreStateDispatcher(), protocol, stub)
        if cache is not None:
            cache[protocol] = (atv, stub)
    stub.level = x
    try:
        rd = ("ok", atv.audio.volume)
    except Exception as exc:
        rd = ("err", err_class(exc))
    try:
        await atv.audio.set_volume(x)
        st = ("ok", None)
    except Exception as exc:
        st = ("err", err_class(exc))
    return rd, st, list(stub.received)


def guard_problems(x, rd, st, received):
    """Direct oracle for the guards (independent of the model)."""
    problems = []
    ok = in_pct(x)
    if rd[0] == "ok" and not in_pct(rd[1]):
        problems.append(("facade:read-out-of-range", f"audio.volume returned {rd[1]!r}"))
    if rd[0] == "ok" and ok and not (rd[1] == x):
        problems.append(("facade:read-wrong-value", f"audio.volume returned {rd[1]!r} for {x!r}"))
    if rd[0] == "err" and (ok or rd[1] != "protocol"):
        problems.append(("facade:read-wrong-exception", f"audio.volume raised {rd[1]} for protocol level {x!r}"))
    for lvl in received:
        if not in_pct(lvl):
            problems.append(("facade:forwarded-out-of-range", f"protocol set_volume received {lvl!r}"))
    if ok and (st[0] != "ok" or len(received) != 1 or not (received[0] == x)):
        problems.append(("facade:in-range-not-forwarded", f"set_volume({x!r}) -> {st}, protocol received {received!r}"))
    if not ok and (st[0] != "err" or st[1] != "protocol"):
        problems.append(("facade:set-wrong-exception", f"set_volume({x!r}) -> {st} (ProtocolError required)"))
    return problems


def check_guards(ctx):
    from pyatv.core.facade import DEFAULT_PRIORITIES
    rng = ctx.rng.fork("guards")
    xs = specials() + grid(-1.0, 101.0, ctx.scale(4, 20)) + random_doubles(rng, ctx.scale(600, 6000), -1.0, 101.0)
    ctx.note("guards:inputs", len(xs))

    async def all_cases():
        out, cache = [], {}
        for x in xs:
            out.append(await guard_case(x, rng.choice(DEFAULT_PRIORITIES), cache))
        return out

    results = vloop.run(all_cases)
    lines = []
    for x in xs:
        lines += [f"fread {tok(x)}", f"fset {tok(x)}"]
    answers = iter(ctx.lean(lines))
    for x, (rd, st, received) in zip(xs, results):
        ctx.case(["guard", tok(x)], not (0.0 < x < 100.0))
        ctx.note("guards:" + ("in" if in_pct(x) else "nan" if math.isnan(x) else "out"))
        m_read, m_set = next(answers), next(answers)
        i_read = f"ok:{tok(rd[1])}" if rd[0] == "ok" else f"err:{rd[1]}"
        i_set = f"ok:{tok(received[0])}" if st[0] == "ok" and len(received) == 1 else f"err:{st[1]}" if st[0] == "err" else f"odd:{received!r}"
        if m_read != i_read and not (rd[0] == "ok" and m_read.startswith("ok:") and same(m_read[3:], rd[1])):
            ctx.disagree({"kind": "guard-read", "x": tok(x)}, i_read, m_read, where="FacadeAudio.volume")
        if m_set != i_set and not (i_set.startswith("ok:") and m_set.startswith("ok:") and same(m_set[3:], received[0])):
            ctx.disagree({"kind": "guard-set", "x": tok(x)}, i_set, m_set, where="FacadeAudio.set_volume")
        ctx.validated(2)
        for sig, what in guard_problems(x, rd, st, received):
            ctx.fail(sig, {"kind": "guard", "x": repr(x), "hex": float(x).hex()}, what, "see property C20", what)


# ---------------------------------------------------------------------------- facade over CompanionAudio
async def companion_cases(xs):
    """Real CompanionAudio behind the facade, fake CompanionAPI playing the device: for each x
    the device first reports level x/100 (read), then the user sets x."""
    from pyatv.const import Protocol
    from pyatv.core import CoreStateDispatcher, ProtocolStateDispatcher
    from pyatv.protocols.companion import CompanionAudio, MediaControlFlags
    from pyatv.protocols.companion.api import MediaControlCommand

    sent = []

    class Api:
        device_level = 0.0

        def listen_to(self, name, func):
            self.handler = func

        async def mediacontrol_command(self, command, args=None):
            if command == MediaControlCommand.SetVolume:
                sent.append(args["_vol"])
                asyncio.ensure_future(self.handler({"_mcF": int(MediaControlFlags.Volume)}))   # device acknowledges
                return {}
            return {"_c": {"_vol": self.device_level}}

        async def hid_command(self, down, command):
            return None

    class FakeCore:
        pass

    core_dispatcher = CoreStateDispatcher()
    core = FakeCore()
    core.state_dispatcher = ProtocolStateDispatcher(Protocol.Companion, core_dispatcher)
    api = Api()
    audio = CompanionAudio(api, core)
    atv = await make_atv(core_dispatcher, Protocol.Companion, audio)
    out = []
    for x in xs:
        api.device_level = x / 100.0
        await api.handler({"_mcF": int(MediaControlFlags.Volume)})
        reported = api.device_level * 100.0        # what the device said, computed here (not read back)
        try:
            rd = ("ok", atv.audio.volume)
        except Exception as exc:
            rd = ("err", err_class(exc))
        del sent[:]
        try:
            await atv.audio.set_volume(x)
            st = ("ok", None)
        except Exception as exc:
            st = ("err", err_class(exc))
        out.append((reported, rd, st, list(sent)))
        for _ in range(3):
            await asyncio.sleep(0)
    return out


def companion_problems(x, reported, rd, st, sent):
    problems = []
    if rd[0] == "ok" and not in_pct(rd[1]):
        problems.append(("companion:read-out-of-range", f"audio.volume returned {rd[1]!r}"))
    if rd[0] == "err" and (in_pct(reported) or rd[1] != "protocol"):
        problems.append(("companion:read-wrong-exception", f"audio.volume raised {rd[1]} for reported level {reported!r}"))
    for lvl in sent:
        if not (isinstance(lvl, float) and 0.0 <= lvl <= 1.0):
            problems.append(("companion:sent-out-of-range", f"_vol {lvl!r} sent to the device"))
    if in_pct(x) and (st[0] != "ok" or sent != [x / 100.0]):
        problems.append(("companion:in-range-not-forwarded", f"set_volume({x!r}) -> {st}, sent {sent!r}"))
    if not in_pct(x) and (st[0] != "err" or st[1] != "protocol" or sent):
        problems.append(("companion:set-wrong-exception", f"set_volume({x!r}) -> {st}, sent {sent!r} (ProtocolError required)"))
    return problems


def check_companion(ctx, only=None):
    rng = ctx.rng.fork("companion")
    xs = only if only is not None else specials() + grid(-1.0, 101.0, 2) + random_doubles(rng, ctx.scale(300, 3000), -1.0, 101.0)
    xs = [x for x in xs if not (math.isfinite(x) and abs(x) > 1e300)]
    results = vloop.run(companion_cases, xs)
    lines = []
    for x, (reported, rd, st, sent) in zip(xs, results):
        lines += [f"fread {tok(reported)}", f"fset {tok(x)}"]
    answers = iter(ctx.lean(lines))
    for x, (reported, rd, st, sent) in zip(xs, results):
        ctx.case(["companion", tok(x)], not (0.0 < x < 100.0))
        ctx.note("companion:" + ("in" if in_pct(x) else "out"))
        m_read, m_set = next(answers), next(answers)
        i_read = f"ok:{tok(rd[1])}" if rd[0] == "ok" else f"err:{rd[1]}"
        i_set = "ok:" + tok(x) if st[0] == "ok" and len(sent) == 1 else f"err:{st[1]}" if st[0] == "err" else f"odd:{sent!r}"
        if m_read != i_read:
            ctx.disagree({"kind": "companion-read", "reported": tok(reported)}, i_read, m_read, where="facade over CompanionAudio: volume")
        if m_set != i_set:
            ctx.disagree({"kind": "companion-set", "x": tok(x)}, i_set, m_set, where="facade over CompanionAudio: set_volume")
        ctx.validated(2)
        for sig, what in companion_problems(x, reported, rd, st, sent):
            ctx.fail(sig, {"kind": "companion", "x": repr(x), "hex": float(x).hex()}, what, "see property C20", what)


# ---------------------------------------------------------------------------- histories
def ser(x):
    """operation argument -> JSON (floats exactly, as hex)"""
    if x is None or isinstance(x, (bool, str)):
        return x
    if isinstance(x, (int, float)):
        return {"f": float(x).hex()}
    return [ser(i) for i in x]


def deser(x):
    if isinstance(x, dict):
        return float.fromhex(x["f"])
    if isinstance(x, list):
        return [deser(i) for i in x]
    return x


def show(x):
    if isinstance(x, (list, tuple)):
        return [show(i) for i in x]
    return x if x is None or isinstance(x, (bool, str)) else repr(x)


_RIGS = []                   # device objects recently built (bounded), for log attribution
_CURRENT_RIG = [None]        # the rig whose stream_file is running (for the module-level open_source)


class Rig:
    """Common recording for a facade-over-real-protocol-Audio history."""

    def __init__(self):
        self.entries = []        # [model op token, [impl event strings]]
        self.cur = None
        self.pending_logs = []
        self.recv = []           # every level received by the protocol's set_volume
        self.sent = []           # every level that went towards the device
        self.rets = []

    def begin(self, optok):
        self.cur = [optok, []]
        self.entries_last = self.cur
        self.entries.append(self.cur)

    def ev(self, s):
        (self.cur[1] if self.cur is not None else self.pending_logs).append(s)

    def loop_exception(self, loop, context):
        """Exception in a call_soon callback (a state listener): attribute it to the device
        object whose listener raised (several may be alive on this loop)."""
        owner = getattr(getattr(context.get("handle"), "_callback", None), "__self__", None)
        target = next((r for r in reversed(_RIGS) if getattr(r, "audio", None) is owner), self)
        target.pending_logs.append("log:" + err_class(context.get("exception") or RuntimeError()))

    async def flush(self):
        for _ in range(4):
            await asyncio.sleep(0)

    async def user_op(self, op, x=None):
        """set/up/down/read through the device object; records outcome events"""
        audio = self.atv.audio
        self.begin({"set": f"s:{tok(x)}" if x is not None else "", "up": "u", "down": "d", "read": "r"}[op])
        try:
            if op == "set":
                await audio.set_volume(x)
            elif op == "up":
                await audio.volume_up()
            elif op == "down":
                await audio.volume_down()
            else:
                v = audio.volume
                self.rets.append(v)
                self.ev("ret:" + tok(v))
        except Exception as exc:
            self.ev("raise:" + err_class(exc))
        finally:
            self.cur = None


_PATCHED = {}


def patch_raop():
    """stream_file opens the audio file and reads credentials through two module-level
    names; the harness replaces them (from the harness process only) while it runs."""
    import pyatv.protocols.raop as raop_module
    from pyatv.support.metadata import EMPTY_METADATA

    if _PATCHED:
        return

    class Source:
        async def get_metadata(self):
            return EMPTY_METADATA

        async def close(self):
            pass

        duration = 0

        async def readframes(self, nframes):
            return b""

    async def open_source(*args, **kwargs):
        if _CURRENT_RIG[0] is not None:
            await _CURRENT_RIG[0].gate("open")      # opening the source may take long (HTTP download)
        return Source()

    import logging
    logging.getLogger("pyatv.protocols.raop.stream_client").disabled = True   # "connection closed" per fake stream
    _PATCHED.update(open_source=raop_module.open_source, extract_credentials=raop_module.extract_credentials)
    raop_module.open_source = open_source
    raop_module.extract_credentials = lambda service: None


def unpatch_raop():
    import pyatv.protocols.raop as raop_module
    import logging
    logging.getLogger("pyatv.protocols.raop.stream_client").disabled = False
    for name, orig in _PATCHED.items():
        setattr(raop_module, name, orig)
    _PATCHED.clear()


class RaopRig(Rig):
    async def setup(self, with_client):
        patch_raop()
        from pyatv import exceptions
        from pyatv.const import Protocol
        from pyatv.core import CoreStateDispatcher, ProtocolStateDispatcher, UpdatedState
        from pyatv.protocols.raop import RaopAudio, RaopPlaybackManager, RaopStream
        from pyatv.protocols.raop.stream_client import StreamClient
        from pyatv.settings import Settings
        from pyatv.support.metadata import EMPTY_METADATA

        rig = self
        asyncio.get_event_loop().set_exception_handler(self.loop_exception)
        core = CoreStateDispatcher()
        self.receiver_info = {}      # what the receiver answers to RTSP /info
        self.deferred = []           # levels stream_file deferred to send_audio (not expected)
        self.stream_checks = []
        self.last_set = None         # last in-range level set by the user, while nothing else changed it

        self.armed = None            # (gate name, op, x): issue that operation while suspended at the gate
        self.gate_hit = False
        self.on_gate = None
        self.refuse_next = False
        self.readbacks = []
        self.accepts = True          # receiver accepts SET_PARAMETER volume before RECORD
        self.recorded = False        # RECORD has been sent in the current session
        self.in_send_audio = False

        class Connection:
            remote_ip = "127.0.0.1"

        class Rtsp:                  # the RAOP receiver
            connection = Connection()
            session_id = 1

            async def set_parameter(self, name, value):
                assert name == "volume"
                rig.sent.append(float(value))          # offered to the receiver, accepted or not
                if await rig.gate("set_parameter") and rig.refuse_next:   # request in flight, then refused
                    rig.refuse_next = False
                    rig.ev("try:" + tok(float(value)))
                    raise exceptions.HttpError("RTSP/1.0 453 Not Enough Bandwidth", 453)
                if not rig.accepts and not rig.recorded:
                    rig.ev("try:" + tok(float(value)))
                    raise exceptions.HttpError("RTSP/1.0 400 Bad Request", 400)
                if rig.in_send_audio:
                    rig.ev("late:" + tok(float(value)))
                    rig.stored = True

            async def info(self):
                await rig.gate("info")
                return dict(rig.receiver_info)

            async def record(self, *args, **kwargs):
                rig.recorded = True

            async def flush(self, *args, **kwargs):
                pass

            async def teardown(self, *args, **kwargs):
                pass

        class FakeStreamProtocol:
            def teardown(self):
                pass

            async def start_feedback(self):
                pass

        class FakeEndpoint:          # control client / timing server / datagram transport
            def start(self, *args):
                pass

            def close(self):
                pass

            def is_closing(self):
                return True          # no audio packets: _stream_data ends at once

        class FakeLoop:
            async def create_datagram_endpoint(self, *args, **kwargs):
                return FakeEndpoint(), None

        class VerifStreamClient(StreamClient):
            """Real StreamClient (real send_audio / set_volume) without sockets: initialize only
            fetches /info and installs fake control / timing endpoints."""

            async def initialize(self, properties):
                self._info.update(await self.rtsp.info())
                self.control_client = FakeEndpoint()
                self.timing_server = FakeEndpoint()
                self.loop = FakeLoop()

            async def send_audio(self, source, metadata=EMPTY_METADATA, /, volume=None):
                if volume is not None:
                    rig.deferred.append(volume)
                rig.in_send_audio = True
                try:
                    await super().send_audio(source, metadata, volume=volume)
                finally:
                    rig.in_send_audio = False

        class Service:
            properties = {}
            password = None
            port = 7000

        class FakeCore:
            service = Service()
            settings = Settings()

            def takeover(self, *interfaces):
                return lambda: None

        fake_core = FakeCore()
        self.pm = RaopPlaybackManager(fake_core)

        async def pm_setup(service):
            await rig.gate("connect")                  # TCP connect + RTSP session set-up take time
            if self.pm._stream_client is None:
                rig.recorded = False
                self.pm._rtsp = Rtsp()
                self.pm._stream_client = VerifStreamClient(self.pm._rtsp, self.pm.context, FakeStreamProtocol(), fake_core.settings)
            return self.pm._stream_client, self.pm.context

        self.pm.setup = pm_setup
        if with_client:              # a stream is already running
            await pm_setup(None)
            rig.recorded = True
        disp = ProtocolStateDispatcher(Protocol.RAOP, core)
        self.other = ProtocolStateDispatcher(Protocol.Companion, core)
        orig_dispatch = disp.dispatch

        def dispatch(state, value):
            if state == UpdatedState.Volume:
                rig.ev("wire:" + tok(rig.pm.context.volume))
                if rig.pm.stream_client is None:
                    rig.sent.append(rig.pm.context.volume)
                rig.ev("disp:" + tok(value))
            return orig_dispatch(state, value)

        disp.dispatch = dispatch
        self.audio = RaopAudio(self.pm, disp)
        orig_set = self.audio.set_volume

        async def set_volume(level):
            rig.recv.append(level)
            rig.ev("recv:" + tok(level))
            await orig_set(level)
            rig.stored = True        # a level was stored through set_volume

        self.stored = False
        _RIGS.append(self)
        del _RIGS[:-4]
        self.audio.set_volume = set_volume
        self.atv = await make_atv(core, Protocol.RAOP, self.audio)
        self.stream = RaopStream(fake_core, None, self.audio, self.pm)

        def on_report(message):      # registered last: runs right after RaopAudio._volume_changed
            rig.entries.append(["p:" + tok(message.value), rig.pending_logs])
            rig.pending_logs = []

        core.listen_to(UpdatedState.Volume, on_report)
        return self

    def report(self, x):
        from pyatv.core import UpdatedState
        self.last_set = None
        self.other.dispatch(UpdatedState.Volume, x)

    def _read(self):
        try:
            return self.atv.audio.volume
        except Exception as exc:
            return "raise:" + err_class(exc)

    async def gate(self, name):
        """A point where the real code is suspended in an await (connect, an RTSP round trip,
        opening the source).  If an operation is armed for this point it is issued now —
        exactly what another task of the application would do — and the loop runs."""
        if self.armed is None or self.armed[0] != name:
            return False
        _, op, x = self.armed
        self.armed = None
        self.gate_hit = True
        saved, self.cur = self.cur, None
        await self.do(op, x)
        await self.flush()
        self.cur = saved
        if self.on_gate is not None:
            hook, self.on_gate = self.on_gate, None
            hook()
        return True

    async def do(self, op, x=None):
        """One operation of a history on this device object, with the oracle's bookkeeping."""
        if op == "report":
            self.report(x)
        elif op in ("stream", "streamrej"):
            await self.stream_start(x, accepts=(op == "stream"))
        elif op == "streamdur":
            init, accepts, gate, nop, nx = x
            await self.stream_start(init, accepts=accepts, during=(gate, nop, nx))
        elif op == "setdur":
            await self.set_overlapping(*x)
        else:
            await self.user_op(op, x)
            evs = self.entries_last_user[1]
            if op == "set":
                self.last_set = x if in_pct(x) and not any(e.startswith("raise:") for e in evs) else None
            elif op == "read":
                if self.last_set is not None and self.rets and any(e.startswith("ret:") for e in evs):
                    self.readbacks.append((self.last_set, self.rets[-1]))
            else:
                self.last_set = None

    def begin(self, optok):
        super().begin(optok)
        self.entries_last_user = self.cur

    async def set_overlapping(self, x, refuse, nop, nx):
        """`set_volume(x)` during whose SET_PARAMETER round trip another operation is issued;
        the receiver then refuses (or never answers) the first request, or accepts it."""
        self.armed, self.gate_hit, self.refuse_next = ("set_parameter", nop, nx), False, bool(refuse)
        self.begin("s:" + tok(x))
        entry, raised = self.cur, False
        try:
            await self.atv.audio.set_volume(x)
        except Exception as exc:
            raised = True
            self.ev("raise:" + err_class(exc))
        finally:
            self.cur = None
        hit, refused = self.gate_hit, self.gate_hit and raised and refuse
        self.armed, self.refuse_next, self.gate_hit = None, False, False
        if hit:                      # the request completed after everything issued meanwhile
            idx = next(i for i, e in enumerate(self.entries) if e is entry)
            self.entries.append(self.entries.pop(idx))
            if refused:
                entry[0] = "f:" + tok(x)
        if refused:
            pass                     # a refused set changes nothing: the level set meanwhile stands
        else:
            self.last_set = x if in_pct(x) and not raised else None

    async def stream_start(self, init, accepts=True, during=None):
        """One complete RaopStream.stream_file (real StreamClient.send_audio included); the
        receiver advertises initialVolume=init (None: does not advertise) and accepts or
        rejects SET_PARAMETER volume before RECORD.  `during=(gate, op, x)`: while stream_file
        is suspended at that point (connect / info / open) the operation is issued.  Records
        what the oracle needs."""
        if self.pm.stream_client is not None:     # a stream was running (client=True rigs): it ends first
            await self.pm.teardown()
        self.receiver_info = {} if init is None else {"initialVolume": init}
        self.accepts = accepts
        token = "t:" + ("none" if init is None else tok(init)) + (":a" if accepts else ":r")
        snap = {}

        def start_entry():           # the level stream_file has to respect is the one current now
            snap.update(before=self._read(), nsent=len(self.sent), changed=self.stored, last_set=self.last_set)
            self.begin(token)

        if during is None:
            start_entry()
        else:
            self.armed, self.gate_hit, self.on_gate = tuple(during), False, start_entry
        raised = None
        _CURRENT_RIG[0] = self
        try:
            await self.stream.stream_file("verif.wav")
        except Exception as exc:
            raised = err_class(exc)
            if not snap:
                start_entry()
            self.ev("raise:" + raised)
        finally:
            _CURRENT_RIG[0] = None
            if not snap:
                start_entry()
            self.cur = None
            self.armed, self.on_gate, self.gate_hit = None, None, False
        self.accepts = True
        self.stream_checks.append({"init": init, "accepts": accepts, "before": snap["before"], "after": self._read(),
                                   "changed": snap["changed"], "last_set": snap["last_set"],
                                   "sent": self.sent[snap["nsent"]:], "raised": raised})


MRP_CAPS = {"a": "Absolute", "b": "Both", "r": "Relative", "n": "None"}
CONFIRM_DELAY = 0.02      # seconds (virtual) between a command and the device's VOLUME_DID_CHANGE


class MrpRig(Rig):
    async def setup(self, initial, caps="a"):
        from pyatv.const import Protocol
        from pyatv.core import CoreStateDispatcher, ProtocolStateDispatcher
        from pyatv.protocols.mrp import MrpAudio, protobuf

        rig = self
        asyncio.get_event_loop().set_exception_handler(self.loop_exception)
        self.protobuf = protobuf
        self.echo = True
        self.hostile = None

        class Info:
            clusterID = None
            deviceUID = "verif-uid"

        class DeviceInfo:
            def inner(self):
                return Info()

        class FakeProtocol:
            device_info = DeviceInfo()

            def __init__(self):
                self.listeners = {}

            def listen_to(self, msgtype, func):
                self.listeners[msgtype] = func

            async def send(self, message):
                if message.type == protobuf.ProtocolMessage.SEND_HID_EVENT_MESSAGE:
                    data = message.inner().hidEventData[43:49]      # use page, usage, down (messages.send_hid_event)
                    usage, down = int.from_bytes(data[2:4], "big"), int.from_bytes(data[4:6], "big")
                    if usage in (0xE9, 0xEA) and not down:       # volume key released: the device steps
                        rig.ev("key:" + ("u" if usage == 0xE9 else "d"))
                        step = 0.05 if usage == 0xE9 else -0.05
                        base = rig.device_level if math.isfinite(rig.device_level) else 0.5
                        asyncio.ensure_future(rig.confirm_later(min(max(base + step, 0.0), 1.0)))
                    return
                level = message.inner().volume
                rig.sent.append(level)
                rig.ev("wire:" + tok(level))
                if rig.echo:    # the device confirms with a volume-did-change, a little later
                    back = rig.hostile if rig.hostile is not None else level
                    rig.faithful = rig.hostile is None
                    rig.hostile = None
                    asyncio.ensure_future(rig.confirm_later(back))

            async def send_and_receive(self, message, *args, **kwargs):
                return message

        self.proto = FakeProtocol()
        core = CoreStateDispatcher()
        self.audio = MrpAudio(self.proto, ProtocolStateDispatcher(Protocol.MRP, core))
        msg = protobuf.ProtocolMessage()
        msg.type = protobuf.ProtocolMessage.VOLUME_CONTROL_AVAILABILITY_MESSAGE
        msg.inner().volumeControlAvailable = True
        msg.inner().volumeCapabilities = getattr(protobuf.VolumeCapabilities, MRP_CAPS[caps])
        self.caps = caps
        self.device_level = initial
        self.faithful = True
        self.step_checks = []        # (op, level before, immediate read-back)
        await self.proto.listeners[protobuf.VOLUME_CONTROL_AVAILABILITY_MESSAGE](msg)
        orig_set = self.audio.set_volume

        async def set_volume(level):
            rig.recv.append(level)
            rig.ev("recv:" + tok(level))
            await orig_set(level)

        self.audio.set_volume = set_volume
        self.atv = await make_atv(core, Protocol.MRP, self.audio)
        self.expected = None
        self.report_checks = []      # (kind, level the device last reported, what happened)
        await self.device_reports(initial)
        self.entries.clear()
        self.initial_volume = self.expected
        return self

    async def confirm_later(self, device_level):
        await asyncio.sleep(CONFIRM_DELAY)
        await self.device_reports(device_level)

    async def settle(self):
        """let every pending confirmation arrive (virtual time) before the next operation"""
        await asyncio.sleep(3 * CONFIRM_DELAY)
        await self.flush()

    def read_now(self):
        try:
            return self.atv.audio.volume
        except Exception as exc:
            return "raise:" + err_class(exc)

    async def device_reports(self, device_level, uid="verif-uid"):
        """The device sends VolumeDidChange(device_level in 0..1) for output device `uid`.  For
        our UID `_volume` becomes what the real handler computes from it — that value is the
        model's `report`; for any other UID it is the model's `reportOther`."""
        msg = self.protobuf.ProtocolMessage()
        msg.type = self.protobuf.ProtocolMessage.VOLUME_DID_CHANGE_MESSAGE
        msg.inner().outputDeviceUID = uid
        try:
            msg.inner().volume = device_level
        except Exception:
            return
        await self.proto.listeners[self.protobuf.VOLUME_DID_CHANGE_MESSAGE](msg)
        if uid == "verif-uid":
            # what the device said, in percent, computed HERE from the wire value (binary32) —
            # not read back from the object under test: a handler that alters the reported level
            # (clamps, snaps, ignores it) then disagrees with the model and with the oracle
            self.expected = round(msg.inner().volume * 100.0, 1)
            self.device_level = msg.inner().volume
            self.entries.append(["p:" + tok(self.expected), []])
        else:
            self.entries.append(["o:" + tok(msg.inner().volume * 100.0), []])


LEVEL_POOL = [0.0, -0.0, 100.0, 5.0, 95.0, 2.5, 97.5, 4.999999999999999, 95.00000000000001, 33.0, 50.0, 1 / 3, 99.9,
              5e-324, 1e-300, 1e-9, 100.00000000000001, -5e-324, -1.0, 101.0, 150.0, -50.0, NAN, INF, -INF, 1e30]


REPORT_POOL = [100.4, 100.04, 100.05, 100.06, 150.0, -1.0, -0.04, -0.05, -0.06, -100.0, 99.96, 0.04, 1e30, NAN, INF, -INF]
INITIAL_POOL = [None, None, -15.0, -30.0, 0.0, -144.0, -20.5, -7.25, -50.0, 5.0, NAN, INF, -INF]
OTHER_UIDS = ["other-speaker", "", "verif-uid-2", "VERIF-UID"]


def random_history(rng, n, proto="raop"):
    ops = []
    for _ in range(n):
        k = rng.random()
        if proto == "raop" and rng.chance(0.12):
            if rng.chance(0.35):     # an operation arrives while stream_file is being set up
                accepts = rng.chance(0.7)
                nop = rng.choice(["set", "set", "report", "up", "down"])
                nx = (rng.choice(LEVEL_POOL) if rng.chance(0.4) else rng.uniform(0, 100)) if nop in ("set", "report") else None
                gate = rng.choice(["connect", "info", "open"]) if accepts else "connect"
                ops.append(("streamdur", [rng.choice(INITIAL_POOL), accepts, gate, nop, nx]))
            else:
                ops.append((rng.choice(["stream", "stream", "streamrej"]), rng.choice(INITIAL_POOL)))
            if rng.chance(0.7):
                ops.append(("read", None))
            continue
        if proto == "raop" and rng.chance(0.08):      # two overlapping operations, the first refused or not
            nop = rng.choice(["set", "set", "report", "up", "down", "read"])
            nx = (rng.choice(LEVEL_POOL) if rng.chance(0.4) else rng.uniform(0, 100)) if nop in ("set", "report") else None
            ops.append(("setdur", [rng.uniform(0, 100) if rng.chance(0.8) else rng.choice(LEVEL_POOL), rng.chance(0.6), nop, nx]))
            if rng.chance(0.7):
                ops.append(("read", None))
            continue
        if proto == "mrp" and rng.chance(0.15):
            ops.append(("other", rng.choice(LEVEL_POOL) if rng.chance(0.5) else rng.uniform(-20, 120)))
            continue
        if k < 0.22:
            x = rng.choice(LEVEL_POOL) if rng.chance(0.5) else rng.uniform(-3, 103)
            ops.append(("set", x))
        elif k < 0.47:
            ops.append(("up", None))
        elif k < 0.72:
            ops.append(("down", None))
        elif k < 0.87:
            ops.append(("read", None))
        else:
            x = rng.choice(LEVEL_POOL + REPORT_POOL) if rng.chance(0.6) else rng.uniform(-20, 120)
            ops.append(("report", x))
            if rng.chance(0.5):
                ops.append((rng.choice(["read", "up", "down"]), None))
    return ops


async def run_raop_history(ops, with_client, burst=()):
    rig = await RaopRig().setup(with_client)
    for i, (op, x) in enumerate(ops):
        await rig.do(op, x)
        if i not in burst:
            await rig.flush()
    await rig.flush()
    return rig


async def run_two_devices(ops, with_client):
    """Two device objects alive in one process, built the same way; operations prefixed
    `B:` go to the second one.  Each must behave as if it were alone."""
    a = await RaopRig().setup(with_client)
    b = await RaopRig().setup(with_client)
    for op, x in ops:
        if op.startswith("B:"):
            await b.do(op[2:], x)
        else:
            await a.do(op, x)
        await a.flush()
    await a.flush()
    return a, b


async def run_mrp_history(ops, initial, caps="a"):
    rig = await MrpRig().setup(initial, caps)
    for op, x in ops:
        if op == "report":
            await rig.device_reports(x / 100.0 if math.isfinite(x) else x)
        elif op == "other":
            await rig.device_reports(x / 100.0 if math.isfinite(x) else x, uid=OTHER_UIDS[int(abs(x)) % len(OTHER_UIDS) if math.isfinite(x) else 0])
        else:
            if op == "set" and x is not None and isinstance(x, float) and math.isfinite(x) and int(x * 7) % 11 == 0:
                rig.hostile = (x - 60.0) / 100.0      # now and then the device answers with nonsense
            reported, device_before = rig.expected, rig.device_level
            rig.faithful = True
            await rig.user_op(op, x)
            evs = list(rig.entries_last[1])
            if op in ("read", "up", "down"):
                rig.report_checks.append((op, reported, evs))
            # the operation has RETURNED: with absolute volume control the device's confirmation
            # has been awaited, so the level reads back at once (before the loop runs again)
            if op in ("set", "up", "down") and caps in ("a", "b") and rig.faithful and not any(e.startswith("raise:") for e in evs):
                rig.step_checks.append((op, x, reported, evs, rig.read_now(), device_before))
        await rig.settle()
    return rig


def history_problems(proto, ops, rig, utils):
    """Direct oracle for one history (independent of the model)."""
    problems = []
    for lvl in rig.recv:
        if not in_pct(lvl):
            problems.append((f"{proto}:forwarded-out-of-range", f"{proto} set_volume received {lvl!r}"))
    for lvl in rig.sent:
        okw = good_dbfs(lvl, utils) if proto == "raop" else (isinstance(lvl, float) and 0.0 <= lvl <= 1.0)
        if not okw:
            problems.append((f"{proto}:sent-out-of-range", f"level {lvl!r} sent towards the device"))
    for v in rig.rets:
        if not in_pct(v):
            problems.append((f"{proto}:read-out-of-range", f"audio.volume returned {v!r}"))
    user = [e for e in rig.entries if not e[0].startswith(("p:", "o:"))]
    uops = [o for o in ops if o[0] not in ("report", "other")]
    if any(o[0] in ("streamdur", "setdur") for o in ops):
        uops, user = [], []       # nested operations: entries are not one per listed operation
    for (op, x), (_t, evs) in zip(uops, user):
        raised = [e[6:] for e in evs if e.startswith("raise:")]
        if op == "set":
            if in_pct(x) and (raised or not any(e.startswith("recv:") and same(e[5:], x) for e in evs)):
                problems.append((f"{proto}:in-range-not-forwarded", f"set_volume({x!r}) -> {evs}"))
            if not in_pct(x) and raised != ["protocol"]:
                problems.append((f"{proto}:set-wrong-exception", f"set_volume({x!r}) -> {evs} (ProtocolError required)"))
        elif op == "read" and raised and raised != ["protocol"]:
            problems.append((f"{proto}:read-wrong-exception", f"audio.volume raised {raised}"))
    # device side (MRP): the level the device reported for our output device is what
    # audio.volume returns if it is within 0..100, else ProtocolError; absolute-only steps from
    # an out-of-range reported level are refused with ProtocolError, nothing is sent
    for op, reported, evs in getattr(rig, "report_checks", []):
        if reported is None:
            continue
        if op == "read":
            want = ["ret:" + tok(reported)] if in_pct(reported) else ["raise:protocol"]
            if evs != want and not (in_pct(reported) and len(evs) == 1 and evs[0].startswith("ret:") and same(evs[0][4:], reported)):
                problems.append((f"{proto}:reported-level-not-respected",
                                 f"the device reported {reported!r} %, audio.volume -> {evs} (expected {want})"))
        elif getattr(rig, "caps", "a") == "a" and not in_pct(reported) and not (reported == (100.0 if op == "up" else 0.0)):
            if evs != ["raise:protocol"]:
                problems.append((f"{proto}:step-from-invalid-report",
                                 f"the device reported {reported!r} %, volume_{op} -> {evs} (ProtocolError required, nothing sent)"))
    # MRP with absolute volume control: once set_volume / volume_up / volume_down has returned,
    # audio.volume reads the new level (to the 0.1 % the device reports in)
    for op, x, before, evs, got, device_before in getattr(rig, "step_checks", []):
        if op == "set":
            want = x if in_pct(x) else None
        elif any(e.startswith("key:") for e in evs):
            # relative control: the device chooses the step (the fake one: +-0.05 of its own
            # level, kept within 0..1) and confirms it; the call has waited for that
            base = device_before if math.isfinite(device_before) else 0.5
            stepped = min(max(base + (0.05 if op == "up" else -0.05), 0.0), 1.0)
            want = round(struct.unpack("<f", struct.pack("<f", stepped))[0] * 100.0, 1)
        elif not in_pct(before):
            want = None
        else:
            want = min(before + 5.0, 100.0) if op == "up" else max(before - 5.0, 0.0)
        if want is None:
            continue
        if not isinstance(got, (int, float)) or abs(got - want) > 0.0501:
            what = f"set_volume({x!r})" if op == "set" else f"volume_{op} from {before!r}"
            problems.append((f"{proto}:read-back-differs", f"{what} returned ({evs}), audio.volume then reads {got!r} instead of {want!r}"))
    # read-back: while nothing else changed the level, audio.volume returns the level last set
    for want, got in getattr(rig, "readbacks", []):
        if not isinstance(got, (int, float)) or abs(got - want) > TOL_READBACK:
            problems.append((f"{proto}:read-back-differs", f"set_volume({want!r}) succeeded, nothing changed the level since, audio.volume reads {got!r}"))
    # stream start: a level the user set (or any level already stored through set_volume) must
    # survive the start, whatever the receiver advertises, and the receiver must be sent it
    def pct_of(d):
        return 0.0 if d < -30.0 else (d + 30.0) * 100.0 / 30.0

    for chk in getattr(rig, "stream_checks", []):
        after, want = chk["after"], None
        if isinstance(after, str) and after != "raise:protocol":
            problems.append((f"{proto}:read-wrong-exception", f"audio.volume {after} after a stream start (initialVolume={chk['init']!r})"))
        if chk["last_set"] is not None:
            want, why = chk["last_set"], f"the user set {chk['last_set']!r}"
        elif chk["changed"] and isinstance(chk["before"], float):
            want, why = chk["before"], f"the level was {chk['before']!r} before the start"
        if want is None:
            continue
        where = (f"stream start, receiver initialVolume={chk['init']!r}, "
                 f"{'accepts' if chk['accepts'] else 'rejects'} volume before RECORD: {why}")
        if chk["raised"]:
            problems.append((f"{proto}:stream-start-raises", f"{where}, stream_file raised {chk['raised']}"))
        elif not isinstance(after, float) or abs(after - want) > TOL_READBACK:
            problems.append((f"{proto}:stream-start-loses-level", f"{where}, audio.volume reads {after!r} afterwards"))
        elif chk["accepts"] and not any(isinstance(d, float) and abs(pct_of(d) - want) <= TOL_READBACK for d in chk["sent"]):
            problems.append((f"{proto}:stream-start-level-not-sent", f"{where}, the receiver was sent {chk['sent']!r}"))
    return problems


def encode_ops(entries):
    return ",".join(t for t, _ in entries) or "-"


def encode_events(entries):
    return ";".join(",".join(evs) or "-" for _, evs in entries) or "-"


def events_agree(impl, model, wire32):
    """exact agreement; MRP wire levels are binary32 on the wire (protobuf float)"""
    if impl == model:
        return True
    a, b = impl.split(";"), model.split(";")
    if len(a) != len(b):
        return False
    for ea, eb in zip(a, b):
        la, lb = ea.split(","), eb.split(",")
        if len(la) != len(lb):
            return False
        for x, y in zip(la, lb):
            if x == y:
                continue
            if wire32 and x.startswith("wire:") and y.startswith("wire:"):
                m = untok(y[5:])
                if isinstance(m, Fraction) and same(x[5:], struct.unpack("<f", struct.pack("<f", float(m)))[0]):
                    continue
            return False
    return True


def broken(ctx):
    """the direct oracle already has a failing input: the verdict is decided, stop generating
    further work (a model/implementation disagreement alone does not stop the search — a
    failing input is still wanted)"""
    return bool(ctx.failures)


def check_histories(ctx, utils, only=None, phase="all"):
    """phase "first": the fixed histories (two device objects, interleavings, boundaries) as one
    small chunk; "rest": seeded random histories, chunk by chunk, stopping after the first
    chunk that produced a failure or a disagreement (a broken tree gets its verdict in about
    the normal wall time even if every further case would be slow)."""
    if only is not None:
        return evaluate_histories(ctx, utils, [only])
    if phase in ("all", "first"):
        evaluate_histories(ctx, utils, fixed_histories())
        if phase == "first" or broken(ctx):
            return broken(ctx)
    rng = ctx.rng.fork("hist")
    total, chunk = ctx.scale(600, 15000), ctx.scale(150, 1500)
    done = 0
    while done < total and not broken(ctx):
        evaluate_histories(ctx, utils, random_histories(ctx, rng, min(chunk, total - done)))
        done += chunk
    ctx.note("hist:random-generated", min(done, total))
    return broken(ctx)


def fixed_histories():
    if True:
        fixed = [
            ("raop", [("read", None), ("set", 50.0), ("read", None), ("up", None), ("read", None)], {"client": True}),
            ("raop", [("report", NAN), ("up", None), ("read", None), ("down", None)], {"client": True}),
            ("raop", [("report", 150.0), ("read", None), ("up", None)], {"client": False}),
            ("raop", [("set", 5e-324), ("read", None), ("down", None), ("up", None)], {"client": False}),
            ("raop", [("set", 98.0), ("up", None), ("up", None), ("read", None), ("set", 2.0), ("down", None), ("down", None), ("read", None)], {"client": True}),
            ("raop", [("set", 50.0), ("up", None), ("read", None)], {"client": False, "burst": [0, 1]}),
            ("mrp", [("up", None), ("read", None), ("down", None)], {"initial": 0.5}),
            ("mrp", [("report", 150.0), ("other", 30.0), ("down", None), ("report", -50.0), ("other", 70.0), ("up", None)], {"initial": 0.5}),
            ("mrp", [("other", 150.0), ("up", None), ("other", NAN), ("down", None), ("read", None)], {"initial": 0.5}),
            ("mrp", [("report", -50.0), ("read", None), ("up", None), ("down", None)], {"initial": 0.5}),
            ("mrp", [("report", NAN), ("read", None), ("up", None), ("down", None)], {"initial": 0.5}),
            ("mrp", [("report", 150.0), ("down", None), ("report", INF), ("down", None), ("up", None)], {"initial": 0.5}),
            ("mrp", [("set", 98.0), ("up", None), ("up", None), ("set", 2.0), ("down", None), ("down", None)], {"initial": 0.2}),
        ]
        for lvl in (0.0, 100.0, 50.0, 33.0, 99.9, 5e-324, 1 / 3):       # set, start streaming, read back
            for init in (-15.0, None, -144.0, 0.0):
                fixed.append(("raop", [("set", lvl), ("stream", init), ("read", None)], {"client": False}))
        # receiver rejects SET_PARAMETER volume before RECORD (deferred hand-over), level never
        # known / set by the user / reported by another protocol, initialVolume advertised or not
        for init in (None, -15.0):
            fixed.append(("raop", [("streamrej", init), ("read", None), ("up", None), ("read", None), ("down", None)], {"client": False}))
            fixed.append(("raop", [("report", 40.0), ("streamrej", init), ("read", None), ("down", None)], {"client": False}))
            for lvl in (0.0, 100.0, 9.0, 33.0, 5e-324):
                fixed.append(("raop", [("set", lvl), ("streamrej", init), ("read", None), ("up", None), ("read", None)], {"client": False}))
        fixed += [
            ("raop", [("streamrej", None), ("streamrej", None), ("read", None), ("stream", None), ("read", None)], {"client": False}),
            ("raop", [("stream", -15.0), ("read", None), ("up", None), ("stream", -30.0), ("read", None)], {"client": False}),
            ("raop", [("stream", None), ("read", None)], {"client": False}),
            ("raop", [("stream", 5.0), ("read", None), ("stream", NAN), ("read", None), ("stream", -INF), ("read", None)], {"client": False}),
            ("raop", [("report", 100.0), ("stream", -15.0), ("read", None)], {"client": False}),
            ("raop", [("set", 100.0), ("stream", -15.0), ("read", None)], {"client": True}),
        ]
        # operations arriving while another one is suspended in an await
        for gate in ("connect", "info", "open"):
            for init in (None, -15.0):
                fixed.append(("raop", [("set", 20.0), ("streamdur", [init, True, gate, "set", 60.0]), ("read", None)], {"client": False}))
                fixed.append(("raop", [("set", 20.0), ("streamdur", [init, True, gate, "report", 45.0]), ("read", None)], {"client": False}))
                fixed.append(("raop", [("streamdur", [init, True, gate, "set", 100.0]), ("read", None)], {"client": False}))
        fixed += [
            ("raop", [("set", 20.0), ("streamdur", [None, False, "connect", "set", 60.0]), ("read", None)], {"client": False}),
            ("raop", [("set", 30.0), ("setdur", [20.0, True, "set", 50.0]), ("read", None), ("up", None), ("read", None)], {"client": True}),
            ("raop", [("set", 30.0), ("setdur", [20.0, False, "set", 50.0]), ("read", None)], {"client": True}),
            ("raop", [("set", 30.0), ("setdur", [20.0, True, "report", 70.0]), ("read", None), ("down", None)], {"client": True}),
            ("raop", [("set", 30.0), ("setdur", [20.0, True, "up", None]), ("read", None)], {"client": True}),
            ("raop", [("set", 30.0), ("setdur", [20.0, True, "read", None]), ("read", None)], {"client": True}),
            # two device objects alive at once
            ("raop2", [("set", 20.0), ("B:set", 70.0), ("read", None), ("up", None), ("B:read", None), ("read", None)], {"client": False}),
            ("raop2", [("set", 20.0), ("B:report", 70.0), ("read", None), ("B:up", None), ("read", None), ("B:read", None)], {"client": True}),
            ("raop2", [("B:set", 0.0), ("set", 100.0), ("B:stream", -15.0), ("read", None), ("stream", None), ("B:read", None), ("read", None)], {"client": False}),
        ]
        for lvl in REPORT_POOL + [100.0, 0.0, 50.0]:     # device report, then read / step / read
            fixed.append(("mrp", [("report", lvl), ("read", None), ("up", None), ("read", None), ("report", lvl), ("down", None), ("read", None)], {"initial": 0.5}))
            fixed.append(("raop", [("report", lvl), ("read", None), ("up", None), ("read", None)], {"client": False}))
        for caps in "abrn":          # every volume capability; the confirmation arrives with a delay
            fixed.append(("mrp", [("set", 20.0), ("read", None), ("up", None), ("up", None), ("read", None), ("down", None), ("read", None)], {"initial": 0.0, "caps": caps}))
            fixed.append(("mrp", [("set", 98.0), ("up", None), ("up", None), ("read", None), ("set", 33.3), ("read", None), ("set", 0.0), ("down", None), ("read", None)], {"initial": 0.5, "caps": caps}))
            fixed.append(("mrp", [("report", 150.0), ("up", None), ("down", None), ("read", None), ("set", 101.0), ("set", NAN)], {"initial": 0.5, "caps": caps}))
        # the multi-device cases first
        fixed.sort(key=lambda t: t[0] != "raop2")
        return fixed


def random_histories(ctx, rng, count):
    todo = []
    if True:
        for _ in range(count):
            n = rng.randint(1, ctx.scale(14, 30))
            if rng.chance(0.12):
                both = [(("B:" + o) if rng.chance(0.5) else o, x) for o, x in random_history(rng, n, "raop") if o not in ("streamdur", "setdur")]
                todo.append(("raop2", both, {"client": rng.chance(0.5)}))
            elif rng.chance(0.6):
                burst = sorted(rng.sample(range(n), rng.randint(0, n // 2))) if rng.chance(0.3) else []
                todo.append(("raop", random_history(rng, n, "raop"), {"client": rng.chance(0.5), "burst": burst}))
            else:
                todo.append(("mrp", random_history(rng, n, "mrp"), {"initial": rng.choice([0.0, 1.0, 0.5, 0.33, 0.97, 0.02]), "caps": rng.choice("aaabbrn")}))

    return todo


def evaluate_histories(ctx, utils, todo):
    async def run_all():
        out = []
        for proto, ops, opt in todo:
            if proto == "raop":
                out.append(await run_raop_history(ops, opt.get("client", False), set(opt.get("burst", ()))))
            elif proto == "raop2":
                out.append(await run_two_devices(ops, opt.get("client", False)))
            else:
                out.append(await run_mrp_history(ops, opt["initial"], opt.get("caps", "a")))
        return out

    # one fresh virtual-time loop per batch (wait_for timeouts cost nothing)
    rigs = vloop.run(run_all)
    records = []        # one per device object: (protocol, its operations, rig, the whole case)
    for (proto, ops, opt), rig in zip(todo, rigs):
        case = {"kind": "history", "protocol": proto, "ops": [[o, ser(x)] for o, x in ops], "options": dict(opt)}
        if proto == "raop2":
            records.append(("raop", [(o, x) for o, x in ops if not o.startswith("B:")], rig[0], case, ops))
            records.append(("raop", [(o[2:], x) for o, x in ops if o.startswith("B:")], rig[1], case, ops))
        else:
            records.append((proto, ops, rig, case, ops))
    lines = []
    for proto, ops, rig, case, allops in records:
        if proto == "raop":
            lines.append(f"raop f none {encode_ops(rig.entries)}")
        else:
            lines.append(f"mrp f {rig.caps} {tok(rig.initial_volume)} {encode_ops(rig.entries)}")
    answers = ctx.lean(lines)
    failures_before = len(ctx.failures)
    for (proto, ops, rig, case, allops), model in zip(records, answers):
        impl = encode_events(rig.entries)
        shown = [[o, show(x)] for o, x in allops]
        rejected = any(o == "set" and not in_pct(x) for o, x in ops)
        odd_report = any(o == "report" and not in_pct(x) for o, x in ops)
        clamped = any("recv:100/1" in e or "recv:0/1" in e for _, evs in rig.entries for e in evs)
        nested = any(o in ("streamdur", "setdur") for o, _ in ops)
        ctx.case([case["protocol"], case["ops"], sorted(case["options"].items()), len(ops)], rejected or odd_report or clamped or nested,
                 sample={"protocol": case["protocol"], "ops": shown, "events": impl})
        ctx.note(f"hist:{case['protocol']}")
        ctx.note("hist:ops", len(ops))
        for o, _ in ops:
            ctx.note("hist:op:" + o)
        if not events_agree(impl, model, wire32=(proto == "mrp")):
            ctx.disagree({"kind": "history", "protocol": case["protocol"], "ops": shown,
                          "options": case["options"], "model_ops": encode_ops(rig.entries)}, impl, model, where=f"{proto} history")
        ctx.validated()
        for sig, what in history_problems(proto, ops, rig, utils):
            ctx.fail(sig, case, what, "see property C20", what)
    return len(ctx.failures) > failures_before


# ---------------------------------------------------------------------------- reachable stepping states
def check_reachable(ctx, utils):
    """BFS over every state reachable by volume_up / volume_down from a set of start levels
    (visited set, bounded depth): nothing out of range is ever received or sent."""
    rng = ctx.rng.fork("bfs")
    starts = [0.0, 100.0, 33.0, 2.5, 97.5, 5e-324, 99.99999999999999, 1 / 3] + [rng.uniform(0, 100) for _ in range(ctx.scale(6, 40))]
    depth = ctx.scale(25, 45)
    cap = ctx.scale(1500, 15000)      # bound on expanded states (rounding can keep chains from merging)

    async def bfs_raop():
        rig = await RaopRig().setup(True)
        seen, frontier, steps = set(), [], 0
        for s in starts:
            await rig.user_op("set", s)
            await rig.flush()
            frontier.append(rig.pm.context.volume)
        for _ in range(depth):
            nxt = []
            for st in frontier:
                if st in seen or len(seen) >= cap:
                    continue
                seen.add(st)
                for op in ("up", "down"):
                    rig.pm.context.volume = st
                    await rig.user_op(op)
                    await rig.flush()
                    steps += 1
                    nxt.append(rig.pm.context.volume)
            frontier = nxt
            if not frontier:
                break
        return rig, len(seen), steps

    async def bfs_mrp():
        rig = await MrpRig().setup(0.5)
        seen, frontier, steps = set(), [], 0
        for s in starts:
            await rig.device_reports(s / 100.0)
            frontier.append(rig.audio._volume)
        for _ in range(depth):
            nxt = []
            for st in frontier:
                if st in seen or len(seen) >= cap:
                    continue
                seen.add(st)
                for op in ("up", "down"):
                    rig.audio._volume = st
                    await rig.user_op(op)
                    await rig.settle()
                    steps += 1
                    nxt.append(rig.audio._volume)
            frontier = nxt
            if not frontier:
                break
        return rig, len(seen), steps

    for proto, fn in (("raop", bfs_raop), ("mrp", bfs_mrp)):
        rig, nstates, steps = vloop.run(fn)
        ctx.note(f"bfs:{proto}:states", nstates)
        ctx.note(f"bfs:{proto}:steps", steps)
        ctx.case(["bfs", proto, [tok(s) for s in starts], depth], True)
        bad = [l for l in rig.recv if not in_pct(l)]
        bad_sent = [l for l in rig.sent if not (good_dbfs(l, utils) if proto == "raop" else 0.0 <= l <= 1.0)]
        raised = [e for _t, evs in rig.entries for e in evs if e.startswith("raise:")]
        if bad or bad_sent or raised:
            what = f"stepping from in-range levels: received {bad[:3]!r}, sent {bad_sent[:3]!r}, raised {raised[:3]!r}"
            ctx.fail(f"{proto}:step-leaves-range", {"kind": "bfs", "protocol": proto, "starts": [float(s).hex() for s in starts], "depth": depth},
                     what, "every stepped level within 0..100", what)


# ---------------------------------------------------------------------------- entry points
def run(ctx):
    from pyatv import support
    from pyatv.protocols.airplay import utils

    try:
        # small first chunk: several device objects alive at once, interleaved operations,
        # boundaries; then stage by stage, stopping as soon as the verdict is decided
        stages = [lambda: check_histories(ctx, utils, phase="first"),
                  lambda: check_conversions(ctx, utils, support),
                  lambda: check_guards(ctx),
                  lambda: check_companion(ctx),
                  lambda: check_histories(ctx, utils, phase="rest"),
                  lambda: check_reachable(ctx, utils)]
        for stage in stages:
            stage()
            if broken(ctx):
                ctx.note("stopped-early")
                break
    finally:
        unpatch_raop()


def replay(ctx, failure):
    """Re-run one recorded failing input on the real code (direct oracle only)."""
    from pyatv import support  # noqa: F401
    from pyatv.protocols.airplay import utils

    case = failure["case"]
    kind = case.get("kind")
    if kind == "conv":
        x = float.fromhex(case["hex"])
        return bool(conv_problems(x, utils))
    if kind == "mono":
        fn = getattr(utils, case["fn"])
        x = float.fromhex(case["hex"])
        if "hexy" not in case:
            return call(fn, x)[0] != "ok"
        y = float.fromhex(case["hexy"])
        a, b = call(fn, x), call(fn, y)
        return a[0] != "ok" or b[0] != "ok" or not (a[1] <= b[1])
    if kind == "guard":
        x = float.fromhex(case["hex"])
        rd, st, received = vloop.run(guard_case, x)
        return bool(guard_problems(x, rd, st, received))
    if kind == "companion":
        x = float.fromhex(case["hex"])
        (reported, rd, st, sent), = vloop.run(companion_cases, [x])
        return bool(companion_problems(x, reported, rd, st, sent))
    if kind == "history":
        ops = [(o, deser(x)) for o, x in case["ops"]]
        opt = case["options"]
        try:
            if case["protocol"] == "raop":
                rigs = [("raop", ops, vloop.run(run_raop_history, ops, opt.get("client", False), set(opt.get("burst", ()))))]
            elif case["protocol"] == "raop2":
                a, b = vloop.run(run_two_devices, ops, opt.get("client", False))
                rigs = [("raop", [(o, x) for o, x in ops if not o.startswith("B:")], a),
                        ("raop", [(o[2:], x) for o, x in ops if o.startswith("B:")], b)]
            else:
                rigs = [("mrp", ops, vloop.run(run_mrp_history, ops, opt["initial"], opt.get("caps", "a")))]
        finally:
            unpatch_raop()
        return any(history_problems(p, o, r, utils) for p, o, r in rigs)
    if kind == "bfs":
        c2 = type(ctx)(ctx.prop, ctx.tier, ctx.seed, ctx.driver.driver_rel)
        check_reachable(c2, utils)
        return bool(c2.failures)
    return True


def shrink(ctx, failure):
    """Drop operations from a failing history while it still fails on the real code."""
    case = failure["case"]
    if case.get("kind") != "history":
        return failure
    ops = list(case["ops"])
    changed = True
    while changed and len(ops) > 1:
        changed = False
        for i in range(len(ops)):
            trial = ops[:i] + ops[i + 1:]
            f2 = dict(failure, case=dict(case, ops=trial, options=dict(case["options"], burst=[])))
            try:
                if replay(ctx, f2):
                    ops, changed = trial, True
                    break
            except Exception:
                continue
    return dict(failure, case=dict(case, ops=ops, options=dict(case["options"], burst=[] if len(ops) != len(case["ops"]) else case["options"].get("burst", []))))
