"""C18 — failed operations release everything they acquired.

Real code driven (in-process, nothing of it is re-implemented):
  * pyatv.connect (protocol set-up loop + its except branch), FacadeAppleTV.connect /
    close / takeover with its real Relayers;
  * RaopStream.stream_file with the real RaopPlaybackManager (acquire/setup/teardown),
    real RaopAudio, real FacadeAppleTV.takeover;
  * AirPlayStream.play_url (local file -> web server, takeover, try/finally).
Collaborators are replaced by ledger-recording fakes: the per-protocol
SetupData.connect/close/device_info/interfaces/features (fake ProtocolMethods in
pyatv.PROTOCOLS; connect() takes scripted virtual time), http.create_session
(ClientSessionManager), raop.http_connect / airplay.http_connect, the I/O below StreamClient and the AirPlayV1/V2
protocol objects (UDP endpoints, RTSP requests, pair-verify, event channel, packet pump; the objects themselves are real),
open_source, StaticFileWebServer, AirPlayPlayer.  Every fake call is a numbered *point*;
a plan makes point k fail (an Exception), be cancelled (real task.cancel(), delivered
as CancelledError at the fake's await) or park (overlap scenarios).  Release calls that
are awaited (audio.close, server.close, session.close) take effect first and are a
point afterwards.

Model line:  `run <script> <env> <fault>` -> `<outcome> <ledger> <points>`,
             `held <script> <k>` -> `<ledger>` (what the call holds parked at point k).
"""
import asyncio
import itertools
import os

RULE = ("connect: every subset of the five protocols x every failing position x each of the four per-protocol "
        "collaborator calls (connect, interfaces.items(), features iteration, device_info()) x scripted virtual-time "
        "connect durations (none / failing one fastest / slowest / PRNG), close() tasks that raise / finish late, observed when "
        "connect() raises and after the loop is drained, + success runs; "
        "stream_file (8 variants: metadata given/not x initial volume known/not x AirPlay 1/2 receiver, real StreamClient and "
        "AirPlayV1/V2 protocol objects over fakes of what they acquire; + TXT records whose parsing raises) and play_url (local file / URL): "
        "a failure and a real cancellation at every collaborator call (points enumerated by a dry run), "
        "the calls' own argument values (also ones failing by themselves), awaited releases taking 1..60 virtual seconds, "
        "every overlap (second call of either kind while the first is parked at every point; refused takeover "
        "by a foreign protocol; second call after the first failed); thorough adds fault x overlap products and "
        "PRNG-chosen call sequences. non-trivial = the call failed/was cancelled/was refused after at least one "
        "acquisition or with another stream active; distinct = (operation, variant, environment, fault)")
ASSUMPTIONS = [
    "real sockets, aiohttp sessions, RTSP/UDP endpoints and the audio decoder are represented by ledger-recording fakes "
    "(a fake raises *instead of* acquiring; an awaited release takes effect and may then raise)",
    "asyncio delivers task.cancel() as CancelledError at the await the task is suspended in",
    "exactly one injected fault per operation (plus, in overlap scenarios, the refusal it provokes)",
]
TRUSTED = ["the ledger-recording fakes of harness/c18.py"]

IFACES = ["Audio", "Metadata", "PushUpdater", "RemoteControl"]


class Injected(Exception):
    """The failure a fake collaborator raises (default class)."""


# the exception CLASS of an injected failure: a kind "fail:<name>" raises that class
EXC_CLASSES = ["ProtocolError", "AuthenticationError", "RuntimeError", "OSError", "ConnectionRefusedError",
               "ConnectionResetError", "TimeoutError", "asyncio.TimeoutError", "KeyError", "ValueError"]


def make_exc(name, msg):
    from pyatv import exceptions

    if not name or name == "Injected":
        ex = Injected(msg)
    elif name == "asyncio.TimeoutError":
        ex = asyncio.TimeoutError(msg)
    elif hasattr(exceptions, name):
        ex = getattr(exceptions, name)(msg)
    else:
        ex = {"RuntimeError": RuntimeError, "OSError": OSError, "ConnectionRefusedError": ConnectionRefusedError,
              "ConnectionResetError": ConnectionResetError, "TimeoutError": TimeoutError, "KeyError": KeyError,
              "ValueError": ValueError}[name](msg)
    ex._verif_injected = True
    return ex


def base_kind(kind):
    return kind.split(":")[0] if isinstance(kind, str) else kind


# ------------------------------------------------------------------------------------
# plan + ledger


class Plan:
    """Numbers collaborator calls; makes one of them fail / be cancelled / park."""

    def __init__(self, fault_at=None, kind="fail", park_at=None, fault_name=None):
        self.fault_at = fault_at
        self.fault_name = fault_name      # alternative to an index: the call with this name
        self.exc = None
        if isinstance(kind, str) and ":" in kind:
            kind, self.exc = kind.split(":", 1)
        self.struck = False
        self.kind = kind
        self.park_at = park_at
        self.n = 0
        self.names = []
        self.op_task = None
        self.parked = asyncio.Event()
        self.resume = asyncio.Event()

    async def point(self, name):
        i = self.n
        self.n += 1
        self.names.append(name)
        if self.park_at == i:
            self.parked.set()
            await self.resume.wait()
        if self.fault_at == i or (self.fault_name is not None and self.fault_name == name):
            if self.kind == "fail":
                self.struck = True
                raise make_exc(self.exc, f"injected failure at point {i} ({name})")
            self.struck = True
            (self.op_task or asyncio.current_task()).cancel()
        await asyncio.sleep(0)

    def sync_point(self, name):
        """A synchronous callback into a collaborator (can fail, cannot be cancelled)."""
        i = self.n
        self.n += 1
        self.names.append(name)
        if self.fault_at == i or (self.fault_name is not None and self.fault_name == name):
            self.struck = True
            raise make_exc(self.exc, f"injected failure at point {i} ({name})")


def task_role(task):
    """Who runs this task?  Decided by the object its top-level coroutine belongs to (not by
    the name of the method, which a refactor may change): "feedback" = a background task of an
    AirPlayV1/V2 stream-protocol object (feedback / keep-alive), "sync" = ControlClient's
    periodic sync task, None = anything else."""
    try:
        from pyatv.protocols.raop.protocols import StreamProtocol
        from pyatv.protocols.raop.stream_client import ControlClient
    except Exception:
        return None
    coro = task.get_coro()
    frame = getattr(coro, "cr_frame", None)
    owner = frame.f_locals.get("self") if frame is not None else None
    if isinstance(owner, StreamProtocol):
        return "feedback"
    if isinstance(owner, ControlClient):
        return "sync"
    name = getattr(coro, "__qualname__", "")
    if "_feedback_task_loop" in name or "_send_keep_alive" in name:
        return "feedback"
    if "_sync_handler" in name:
        return "sync"
    return None


class World:
    """All fake objects ever created, so that `what is still held` can be observed."""

    def __init__(self):
        self.objs = []  # (kind, obj) with obj.open: bool
        self.plan = Plan()
        self.facade = None
        self.raop_pm = None
        self.airplay_stream = None

    def add(self, kind, obj):
        self.objs.append((kind, obj))
        return obj

    slow = 0

    async def slowly(self):
        """An awaited release (audio source, web server, HTTP session) takes `slow` virtual
        seconds before it has taken effect."""
        if self.slow:
            await asyncio.sleep(self.slow)

    def ledger(self):
        out = [kind for kind, o in self.objs if o.open]
        if self.raop_pm is not None and self.raop_pm._is_acquired:
            out.append("acquired")
        if self.facade is not None:
            from pyatv import interface

            for i, name in enumerate(IFACES):
                if self.facade._interfaces[getattr(interface, name)]._takeover_protocol:
                    out.append(f"takeover{i}")
        if self.airplay_stream is not None and self.airplay_stream._play_task is not None:
            out.append("playTask")
        for t in self.fb_tasks():
            out.append("fbtask")
        return sorted(out)

    @staticmethod
    def fb_tasks():
        """Pending feedback / keep-alive tasks started by the (real) stream protocol objects."""
        out = []
        for t in asyncio.all_tasks():
            if not t.done() and task_role(t) == "feedback":
                out.append(t)
        return out

    def open_ids(self):
        return sorted((kind, id(o)) for kind, o in self.objs if o.open)


class Obj:
    def __init__(self):
        self.open = True


# ------------------------------------------------------------------------------------
# fakes


class FakeConnection(Obj):
    """Stands for the HttpConnection returned by http_connect."""

    local_ip = "127.0.0.1"
    remote_ip = "127.0.0.1"
    world = None
    gets = 0

    def close(self):
        self.open = False

    # requests the AirPlay player / protocol objects send directly on the connection
    async def post(self, path, headers=None, body=None, allow_error=False):
        from pyatv.support.http import HttpResponse

        await self.world.plan.point("conn.post")
        return HttpResponse("HTTP", "1.1", 200, "OK", {}, b"")

    async def get(self, path, headers=None, allow_error=False):
        import plistlib

        from pyatv.support.http import HttpResponse

        await self.world.plan.point("conn.get")
        self.gets += 1      # first poll: playing (has a duration); second poll: playback ended
        body = plistlib.dumps({"duration": 1.0}, fmt=plistlib.FMT_BINARY) if self.gets == 1 else b""
        return HttpResponse("HTTP", "1.1", 200, "OK", {}, body)


def make_http_connect(world, kind):
    async def http_connect(address, port):
        await world.plan.point(f"http_connect:{kind}")
        conn = world.add(kind, FakeConnection())
        conn.world = world
        return conn

    return http_connect


def injected_in(ex):
    """Is the injected failure the (possibly wrapped) cause of this exception?"""
    seen = 0
    while ex is not None and seen < 10:
        if getattr(ex, "_verif_injected", False):
            return True
        ex = ex.__cause__ or ex.__context__
        seen += 1
    return False


def make_stream_client(world, info):
    """The REAL StreamClient: initialize / close / send_audio (set-up, start_feedback,
    RECORD/FLUSH, its finally) / set_volume are the code under test, together with the
    REAL AirPlayV1 / AirPlayV2 protocol object that RaopPlaybackManager.setup chose
    (setup, setup_audio_stream, start_feedback, teardown).  Faked is what THEY acquire or
    talk to: the loop's create_datagram_endpoint (control, timing, audio sockets), the
    RTSP requests, pair-verify, the AirPlay 2 event channel (setup_channel), and the
    packet pump `_stream_data` (C16 covers streaming itself)."""
    import plistlib

    from pyatv.protocols.raop.protocols import TimingServer
    from pyatv.protocols.raop.stream_client import ControlClient, StreamClient
    from pyatv.support.http import HttpResponse

    class FakeSocket:
        @staticmethod
        def getsockname():
            return ("127.0.0.1", 4000)

    class FakeTransport(Obj):
        def close(self):
            self.open = False

        def get_extra_info(self, key):
            return FakeSocket()

        def sendto(self, data, addr=None):
            pass

    class FakeLoop:
        async def create_datagram_endpoint(self, factory, **kwargs):
            proto = factory()
            kind = "timing" if isinstance(proto, TimingServer) else "ctrl" if isinstance(proto, ControlClient) else "audiosock"
            await world.plan.point("udp_endpoint:" + kind)
            transport = world.add(kind, FakeTransport())
            if hasattr(proto, "connection_made"):
                proto.connection_made(transport)
            else:
                proto.transport = transport
            return transport, proto

    def response(headers=None, body=b""):
        return HttpResponse("RTSP", "1.0", 200, "OK", headers or {}, body)

    class FakeRtsp:
        """The RTSP requests of pyatv.support.rtsp.RtspSession; every request of the
        operation is a point (requests of background tasks are answered, not numbered)."""

        session_id = 1234

        def __init__(self, connection):
            self.connection = connection

        async def _req(self, name):
            if task_role(asyncio.current_task()) == "feedback":
                await asyncio.sleep(0)      # a background task of the protocol object asks
                return
            await world.plan.point("rtsp." + name)

        async def exchange(self, method, uri=None, **kwargs):
            await self._req("exchange")
            return response()

        async def info(self):
            await self._req("info")
            return dict(info)

        async def auth_setup(self):
            await self._req("auth_setup")
            return response()

        async def announce(self, *args, **kwargs):
            await self._req("announce")
            return response()

        async def setup(self, headers=None, body=None):
            await self._req("setup")
            if body is not None and "streams" in body:
                return response(body=plistlib.dumps({"streams": [{"controlPort": 4001, "dataPort": 4002}]}, fmt=plistlib.FMT_BINARY))
            if body is not None:
                return response(body=plistlib.dumps({"eventPort": 4003}, fmt=plistlib.FMT_BINARY))
            return response(headers={"Transport": "RTP/AVP/UDP;unicast;mode=record;server_port=4002;control_port=4001;timing_port=4004",
                                     "Session": "1"})

        async def record(self, *args, **kwargs):
            await self._req("record")
            return response()

        async def flush(self, *args, **kwargs):
            await self._req("flush")
            return response()

        async def set_parameter(self, parameter, value):
            await self._req("set_parameter")
            return response()

        async def set_metadata(self, *args, **kwargs):
            await self._req("set_metadata")
            return response()

        async def set_artwork(self, *args, **kwargs):
            await self._req("set_artwork")
            return response()

        async def feedback(self, allow_error=False):
            await self._req("feedback")
            return response()

        async def teardown(self, rtsp_session):
            await self._req("teardown")
            return response()

    class HalfRealStreamClient(StreamClient):
        def __init__(self, rtsp, context, protocol, settings):
            super().__init__(rtsp, context, protocol, settings)
            self.loop = FakeLoop()
            self.rtsp = FakeRtsp(rtsp.connection)
            protocol.rtsp = self.rtsp          # the real AirPlayV1/V2 object talks to the same fake

        async def _stream_data(self, source, transport):
            await world.plan.point("client.stream_data")

    world.FakeRtsp = FakeRtsp
    return HalfRealStreamClient


def make_protocol_patches(world, patches):
    """What the real AirPlayV1 / AirPlayV2 stream protocols acquire below RTSP."""
    from pyatv.protocols.raop.protocols import airplayv1, airplayv2

    class Verifier:
        async def verify_credentials(self):
            await world.plan.point("pair_verify")

        @staticmethod
        def encryption_keys(salt, out_info, in_info):
            return bytes(64), bytes(64)

    async def verify_connection(credentials, connection):
        await world.plan.point("verify_connection")
        return Verifier()

    class EventTransport(Obj):
        def close(self):
            self.open = False

    async def setup_channel(factory, verifier, address, port, salt, out_info, in_info):
        await world.plan.point("setup_channel")
        return world.add("eventch", EventTransport()), None

    patches.set(airplayv1, "pair_verify", lambda credentials, connection: Verifier())
    patches.set(airplayv2, "verify_connection", verify_connection)
    patches.set(airplayv2, "setup_channel", setup_channel)


def make_open_source(world):
    class FakeAudio(Obj):
        duration = 1

        async def get_metadata(self):
            from pyatv.support.metadata import EMPTY_METADATA

            await world.plan.point("audio.get_metadata")
            return EMPTY_METADATA

        async def close(self):
            await world.slowly()
            self.open = False
            await world.plan.point("audio.close")

    async def open_source(source, sample_rate, channels, sample_size):
        await world.plan.point("open_source")
        return world.add("audio", FakeAudio())

    return open_source


def make_web_server(world):
    class FakeWebServer(Obj):
        def __init__(self, file_to_serve, address, port=None):
            super().__init__()
            self.open = False
            self.file_address = "http://127.0.0.1:1/file"
            world.add("server", self)

        async def start(self):
            await world.plan.point("server.start")
            self.open = True

        async def close(self):
            await world.slowly()
            self.open = False
            await world.plan.point("server.close")

    return FakeWebServer


def make_play_loop_patch(world, patches):
    """The real AirPlayPlayer opens its timing server with the running loop's
    create_datagram_endpoint: ledger-recording fake (`ptiming`)."""
    loop = asyncio.get_running_loop()

    class PlayTimingTransport(Obj):
        def close(self):
            self.open = False

        def get_extra_info(self, key):
            class Sock:
                @staticmethod
                def getsockname():
                    return ("127.0.0.1", 4005)
            return Sock()

        def sendto(self, data, addr=None):
            pass

    async def create_datagram_endpoint(factory, **kwargs):
        proto = factory()
        await world.plan.point("udp_endpoint:ptiming")
        transport = world.add("ptiming", PlayTimingTransport())
        proto.connection_made(transport)
        return transport, proto

    loop.create_datagram_endpoint = create_datagram_endpoint
    patches.saved.append((loop, "create_datagram_endpoint", None))


class FakeSessionManager(Obj):
    def __init__(self, world):
        super().__init__()
        self.world = world
        self.session = None

    async def close(self):
        await self.world.slowly()
        self.open = False
        await self.world.plan.point("session.close")


# ------------------------------------------------------------------------------------
# patching helpers


class Patches:
    def __init__(self):
        self.saved = []

    def set(self, obj, name, value):
        self.saved.append((obj, name, getattr(obj, name)))
        setattr(obj, name, value)

    def undo(self):
        for obj, name, value in reversed(self.saved):
            if value is None and name == "create_datagram_endpoint":
                obj.__dict__.pop(name, None)
                continue
            setattr(obj, name, value)
        self.saved = []


def protocol_order():
    from pyatv.protocols import PROTOCOLS

    return list(PROTOCOLS.keys())


# ------------------------------------------------------------------------------------
# connect()


CONNECT_STEPS = ["connect", "register", "features", "device_info"]


async def run_connect(subset, fault=None, delays=None, closes=None, lost=None, slow=0, cargs=None):
    """pyatv.connect with the protocols in `subset` (indices into PROTOCOLS order).  Per
    protocol the facade calls four things the protocol supplies: `await connect()` (which
    takes `delays[pos]` seconds of virtual time and then establishes a connection plus a
    background task), `interfaces.items()` (registration), iteration of `features`
    (feature mapping) and `device_info()`.  `fault = (pos, step, kind)` makes that call of
    the pos-th protocol (set-up order) fail / be cancelled.  After connect() has returned
    or raised, the ledger is observed at once (`ledger_at_return`) and again after the loop
    has been drained (virtual time past every delay).  `closes[pos]` scripts the protocol's
    `lost = pos`: right after it has connected, that protocol reports (as the real connections
    do) `device_listener.listener.connection_lost(...)` while connect() is still under way.
    close(): "sync" (closed inside close()), "late" (close() returns a task that needs virtual
    time before the connection is closed), "raise" (the close task closes and then raises)."""
    import pyatv
    from pyatv import conf, interface
    from pyatv.const import FeatureName
    from pyatv.core import SetupData
    from pyatv.protocols import ProtocolMethods
    from pyatv.support import http

    world = World()
    world.slow = slow or 0
    delays = list(delays or [0] * len(subset))
    closes = list(closes or ["sync"] * len(subset))
    if fault:
        world.plan = Plan(kind=fault[2], fault_name=f"{CONNECT_STEPS[fault[1]]}:{subset[fault[0]]}")
    order = protocol_order()
    patches = Patches()
    loop = asyncio.get_running_loop()
    plan = world.plan

    class FakeFeatures(interface.Features):
        def get_feature(self, feature_name):
            return interface.FeatureInfo(interface.FeatureState.Unavailable)

    def methods_for(idx, proto):
        delay = delays[subset.index(idx)] if idx in subset else 0
        close_mode = closes[subset.index(idx)] if idx in subset else "sync"

        class Interfaces(dict):
            def items(self):
                plan.sync_point(f"register:{idx}")
                return super().items()

        class FeatureSet:
            def __iter__(self):
                plan.sync_point(f"features:{idx}")
                return iter([FeatureName.Play])

        def device_info():
            plan.sync_point(f"device_info:{idx}")
            return {}

        def setup(core):
            conn = {}

            async def _connect():
                if isinstance(lost, list) and idx in subset and subset.index(idx) == lost[0] + 1:
                    # the previous protocol's connection drops while this one is connecting
                    core.device_listener.listener.connection_lost(ConnectionResetError("lost during connect"))
                if delay:
                    await asyncio.sleep(delay)
                await plan.point(f"connect:{idx}")
                conn["c"] = world.add(f"conn{idx}", Obj())

                async def background():
                    await asyncio.Event().wait()

                t = Obj()
                t.task = asyncio.ensure_future(background())
                t.task.add_done_callback(lambda _f: setattr(t, "open", False))
                conn["t"] = world.add(f"task{idx}", t)
                if isinstance(lost, int) and idx in subset and subset.index(idx) == lost:
                    core.device_listener.listener.connection_lost(ConnectionResetError("lost during connect"))
                return True

            def _close():
                tasks = set()
                if "t" in conn:
                    conn["t"].task.cancel()
                    tasks.add(conn["t"].task)
                if "c" in conn and close_mode == "sync":
                    conn["c"].open = False
                elif "c" in conn:
                    async def closer():
                        if close_mode.startswith("late"):
                            # the close takes (virtual) time: "late" = 0.3 s, "late:<seconds>"
                            await asyncio.sleep(float(close_mode.split(":")[1]) if ":" in close_mode else 0.3)
                        conn["c"].open = False
                        if close_mode == "raise":
                            raise ConnectionResetError("connection reset while closing")

                    ct = Obj()
                    ct.task = asyncio.ensure_future(closer())
                    ct.task.add_done_callback(lambda _f: setattr(ct, "open", False))
                    world.add(f"task{idx}", ct)
                    tasks.add(ct.task)
                return tasks

            yield SetupData(proto, _connect, _close, device_info,
                            Interfaces({interface.Features: FakeFeatures()}), FeatureSet())

        return ProtocolMethods(setup, None, None, None, None)

    fake_protocols = {proto: methods_for(i, proto) for i, proto in enumerate(order)}

    async def create_session(session=None):
        return world.add("httpSession", FakeSessionManager(world))

    patches.set(pyatv, "PROTOCOLS", fake_protocols)
    patches.set(http, "create_session", create_session)
    # ARGUMENTS of connect(): a configuration with services that are disabled (`also`: further
    # protocol indices, present but disabled), without any identifier, a storage that raises,
    # a caller-supplied session, a `protocol` argument
    cargs = dict(cargs or {})
    config = conf.AppleTV("127.0.0.1", "verif")
    for i in sorted(set(subset) | set(cargs.get("also", []))):
        ident = None if cargs.get("noid") else f"id{i}"
        config.add_service(conf.ManualService(ident, order[i], 1000 + i, {}, enabled=i in subset))
    kwargs = {}
    if cargs.get("storage") == "raise":
        class BadStorage:
            async def get_settings(self, config):
                raise OSError("storage unavailable")

            def __str__(self):
                return "BadStorage"
        kwargs["storage"] = BadStorage()
    if cargs.get("session"):
        kwargs["session"] = object()
    if "protocol" in cargs:
        kwargs["protocol"] = order[cargs["protocol"]]

    before = set(asyncio.all_tasks())
    atv = None
    try:
        plan.op_task = asyncio.ensure_future(pyatv.connect(config, loop, **kwargs))
        try:
            atv = await plan.op_task
            outcome = "ok"
        except asyncio.CancelledError:
            outcome = "cancel"
        except Exception as ex:  # an observation, never a crash
            outcome = "fail" if injected_in(ex) else "err:" + type(ex).__name__
        at_return = world.ledger()
        pending_at_return = len([t for t in asyncio.all_tasks() - before
                                 if not t.done() and t is not asyncio.current_task()])
        # drain: let everything that was started run to its end (virtual time)
        close_times = [float(c.split(":")[1]) for c in closes if c.startswith("late:")]
        await asyncio.sleep(max(delays + close_times + [world.slow]) + 1.0)
        for _ in range(3):
            await asyncio.sleep(0)
        obs = {
            "outcome": outcome,
            "ledger": world.ledger(),
            "ledger_at_return": at_return,
            "pending_at_return": pending_at_return,
            "points": plan.n,
            "names": list(plan.names),
            "stray_tasks": len([t for t in asyncio.all_tasks() - before
                                if not t.done() and t is not asyncio.current_task()
                                and not any(getattr(o, "task", None) is t for _k, o in world.objs)]),
        }
        if atv is not None:
            tasks = atv.close()
            if tasks:
                await asyncio.wait(tasks)
            await asyncio.sleep(0)
            obs["after_close"] = world.ledger()
        return obs
    finally:
        patches.undo()
        for _k, o in world.objs:
            t = getattr(o, "task", None)
            if t is not None and not t.done():
                t.cancel()
        await asyncio.sleep(0)


# ------------------------------------------------------------------------------------
# streams


class Rig:
    """A real FacadeAppleTV with the real RAOP and AirPlay stream implementations, whose
    collaborators are the fakes above."""

    def __init__(self, vol_known=True, v2=False, raop_props=None):
        vol_known, v2 = cfg(vol_known, v2)
        self.world = World()
        self.vol_known = vol_known
        self.v2 = v2
        self.raop_props = raop_props
        self.patches = Patches()

    async def setup(self):
        from functools import partial

        from pyatv import conf, interface
        from pyatv.const import Protocol
        from pyatv.core import CoreStateDispatcher, create_core
        from pyatv.core.facade import FacadeAppleTV
        from pyatv.protocols import airplay, raop
        from pyatv.settings import Settings

        w = self.world
        p = self.patches
        info = {"initialVolume": -20.0} if self.vol_known else {}
        p.set(raop, "http_connect", make_http_connect(w, "rconn"))
        p.set(raop, "StreamClient", make_stream_client(w, info))
        p.set(raop, "open_source", make_open_source(w))
        make_protocol_patches(w, p)
        real_gpv = raop.get_protocol_version

        def get_protocol_version(service, preferred):
            # helper parsing between two collaborator calls: a (synchronous) point
            w.plan.sync_point("sync:get_protocol_version")
            return real_gpv(service, preferred)

        p.set(raop, "get_protocol_version", get_protocol_version)
        p.set(airplay, "http_connect", make_http_connect(w, "playConn"))
        p.set(airplay, "StaticFileWebServer", make_web_server(w))
        p.set(airplay, "RtspSession", lambda connection: w.FakeRtsp(connection))   # AirPlayPlayer + protocol objects are real
        make_play_loop_patch(w, p)
        p.set(airplay.net, "get_local_address_reaching", lambda addr: "127.0.0.1")

        config = conf.AppleTV("127.0.0.1", "verif")
        from pyatv.protocols.airplay.utils import AirPlayFlags

        flag = int(AirPlayFlags.SupportsUnifiedMediaControl)
        props = {"ft": "0x%08X,0x%X" % (flag & 0xFFFFFFFF, flag >> 32)} if self.v2 else {"ft": "0x00000000,0x0"}
        if self.raop_props is not None:
            props = dict(self.raop_props)
        raop_service = conf.ManualService("raopid", Protocol.RAOP, 7000, props)
        aflag = int(AirPlayFlags.SupportsUnifiedMediaControl | AirPlayFlags.SupportsAirPlayVideoV2)
        aprops = {"features": "0x%08X,0x%X" % (aflag & 0xFFFFFFFF, aflag >> 32)} if self.v2 else \
            {"features": "0x%08X,0x0" % int(AirPlayFlags.SupportsAirPlayVideoV1)}
        airplay_service = conf.ManualService("airplayid", Protocol.AirPlay, 7000, aprops)
        config.add_service(raop_service)
        config.add_service(airplay_service)
        settings = Settings()
        dispatcher = CoreStateDispatcher()
        session = FakeSessionManager(w)
        self.facade = w.facade = FacadeAppleTV(config, session, dispatcher, settings)
        loop = asyncio.get_running_loop()
        self.streams = {}
        for proto, service, mod in ((Protocol.RAOP, raop_service, raop), (Protocol.AirPlay, airplay_service, airplay)):
            core = await create_core(config, service, settings=settings, device_listener=self.facade,
                                     session_manager=session, core_dispatcher=dispatcher,
                                     takeover_method=partial(self.facade.takeover, proto), loop=loop)
            for sd in mod.setup(core):
                if sd.protocol == proto:
                    self.facade.add_protocol(sd)
                    self.streams[proto] = sd.interfaces[interface.Stream]
        await self.facade.connect()
        self.raop = self.streams[Protocol.RAOP]
        self.airplay = self.streams[Protocol.AirPlay]
        w.raop_pm = self.raop.playback_manager
        w.airplay_stream = self.airplay
        self.foreign_release = None
        return self

    def foreign_takeover(self, ifaces):
        """Another protocol (MRP) holds the takeover of these interfaces."""
        from pyatv import interface
        from pyatv.const import Protocol

        self.foreign_release = self.facade.takeover(Protocol.MRP, *[getattr(interface, IFACES[i]) for i in ifaces])

    def call(self, op, args=None):
        """Coroutine for one operation of the real code.  op = ("stream", meta_given) or
        ("play", local).  `args` (JSON-able) sets the call's own ARGUMENT VALUES, including
        ones that make the operation fail by themselves: play_url `position` (and other
        kwargs), stream_file `metadata` ("bad" = a wrong type), `override`, extra kwargs,
        `file` of an unsupported type ("__none__" stands for None)."""
        from pyatv.support.metadata import MediaMetadata

        args = dict(args or {})
        dec = lambda v: None if v == "__none__" else v
        if op[0] == "stream":
            md = MediaMetadata(title="t") if op[1] else None
            if args.get("metadata") == "bad":
                md = "not-a-metadata-object"
            file = dec(args["file"]) if "file" in args else "http://example.invalid/a.mp3"
            kw = {k: dec(v) for k, v in (args.get("kwargs") or {}).items()}
            if "override" in args:
                kw["override_missing_metadata"] = dec(args["override"])
            return self.raop.stream_file(file, metadata=md, **kw)
        url = os.path.abspath(__file__) if op[1] else "http://example.invalid/a.mp4"
        kw = {k: dec(v) for k, v in (args.get("kwargs") or {}).items()}
        if "position" in args:
            kw["position"] = dec(args["position"])
        return self.airplay.play_url(url, **kw)

    async def run_op(self, op, plan, args=None):
        """Run one operation under `plan` to its end; returns the outcome class."""
        from pyatv import exceptions

        self.world.plan = plan
        try:
            coro = self.call(op, args)
        except Exception as ex:      # the call itself rejects its arguments
            return "err:" + type(ex).__name__
        task = plan.op_task = asyncio.ensure_future(coro)
        try:
            await task
            out = "ok"
        except asyncio.CancelledError:
            out = "cancel"
        except exceptions.InvalidStateError:
            out = "refused"
        except Exception as ex:
            out = "fail" if injected_in(ex) else "err:" + type(ex).__name__
        for _ in range(3):
            await asyncio.sleep(0)
        return out

    def teardown(self):
        self.patches.undo()


def cfg(vol, v2=False):
    """A receiver configuration: (initial volume known, AirPlay 2); a bare bool = AirPlay 1."""
    if isinstance(vol, (list, tuple)):
        return bool(vol[0]), bool(vol[1])
    return bool(vol), bool(v2)


def op_name(op, vol_known=True):
    vol_known, v2 = cfg(vol_known)
    if op[0] == "stream":
        return "stream:%d%d%d" % (1 if vol_known else 0, 1 if op[1] else 0, 1 if v2 else 0)
    return "play:%d%d" % (1 if op[1] else 0, 1 if v2 else 0)


def stray(before):
    """Tasks started since `before` that are still pending.  Not counted: the feedback tasks
    (they are in the ledger as `fbtask`) and ControlClient's periodic sync task, which nobody
    cancels but which ends by itself at its next tick once the control socket is closed."""
    out = []
    for t in asyncio.all_tasks() - before:
        if t.done() or t is asyncio.current_task() or task_role(t) in ("sync", "feedback"):
            continue
        out.append(t)
    return out


async def scenario_single(op, vol_known, fault_at, kind, foreign=(), raop_props=None, args=None, slow=0):
    """One call with one fault (or none), optionally while a foreign protocol holds a
    takeover; then a fresh stream_file must be accepted."""
    rig = await Rig(vol_known, raop_props=raop_props).setup()
    rig.world.slow = slow or 0
    try:
        if foreign:
            rig.foreign_takeover(foreign)
        before_tasks = set(asyncio.all_tasks())
        env = rig.world.ledger()
        ids0 = rig.world.open_ids()
        plan = Plan(fault_at, kind)
        out = await rig.run_op(op, plan, args)
        obs = {"outcome": out, "env": env, "ledger": rig.world.ledger(), "points": plan.n, "names": plan.names,
               "untouched": all(x in rig.world.open_ids() for x in ids0), "stray_tasks": len(stray(before_tasks))}
        if rig.foreign_release:
            rig.foreign_release()
        # a later stream can start normally
        obs["later"] = await rig.run_op(("stream", True), Plan())
        obs["later_ledger"] = rig.world.ledger()
        return obs
    finally:
        rig.teardown()


async def scenario_overlap(op1, op2, vol_known, park_at, fault2=None, kind2="fail"):
    """op1 runs until it is parked at point `park_at`; op2 is then started (and must be
    refused); op1 is resumed and must complete; then a fresh stream must be accepted."""
    rig = await Rig(vol_known).setup()
    try:
        before_tasks = set(asyncio.all_tasks())
        plan1 = Plan(park_at=park_at)
        rig.world.plan = plan1
        task1 = plan1.op_task = asyncio.ensure_future(rig.call(op1))
        waiter = asyncio.ensure_future(plan1.parked.wait())
        await asyncio.wait([task1, waiter], return_when=asyncio.FIRST_COMPLETED)
        waiter.cancel()
        if task1.done():
            task1.exception() if not task1.cancelled() else None
            return {"reached": False}
        held = rig.world.ledger()
        ids1 = rig.world.open_ids()
        plan2 = Plan(fault2, kind2)
        out2 = await rig.run_op(op2, plan2)
        obs = {"reached": True, "held": held, "outcome2": out2, "ledger2": rig.world.ledger(), "points2": plan2.n,
               "untouched": all(x in rig.world.open_ids() for x in ids1)}
        # resume the first call; it must be able to finish normally
        rig.world.plan = plan1
        plan1.resume.set()
        try:
            await task1
            obs["outcome1"] = "ok"
        except asyncio.CancelledError:
            obs["outcome1"] = "cancel"
        except Exception as ex:
            obs["outcome1"] = "err:" + type(ex).__name__
        await asyncio.sleep(0)
        obs["ledger1"] = rig.world.ledger()
        obs["stray_tasks"] = len(stray(before_tasks))
        obs["later"] = await rig.run_op(("stream", True), Plan())
        obs["later_ledger"] = rig.world.ledger()
        return obs
    finally:
        rig.teardown()


def run_async(coro):
    from harness.core.vloop import VirtualLoop

    loop = VirtualLoop()      # retry / poll sleeps of the real code take virtual time
    try:
        asyncio.set_event_loop(loop)
        return loop.run_until_complete(coro)
    finally:
        try:
            pending = [t for t in asyncio.all_tasks(loop) if not t.done()]
            for t in pending:
                t.cancel()
            if pending:
                loop.run_until_complete(asyncio.gather(*pending, return_exceptions=True))
        finally:
            asyncio.set_event_loop(None)
            loop.close()


# ------------------------------------------------------------------------------------
# cases: evaluation on the real code, model line(s), oracle

OPS = [("stream", True), ("stream", False), ("play", True), ("play", False)]


def fault_str(fault):
    return "-" if fault is None else f"{fault[0]}:{base_kind(fault[1])}"


def csv(xs):
    return ",".join(xs) if xs else "-"


STREAM_CFGS = [[True, False], [False, False], [True, True], [False, True]]
PLAY_CFG = [True, False]
PLAY_CFGS = [[True, False], [True, True]]


def variants(cfgs=None):
    """(op, cfg): the script variants (the receiver configuration only matters for stream_file)."""
    out = []
    for op in OPS:
        if op[0] == "stream":
            for c in (cfgs or STREAM_CFGS):
                out.append((op, c))
        else:
            for c in PLAY_CFGS:
                if cfgs is None or any(x[1] == c[1] for x in cfgs):
                    out.append((op, c))
    return out


def evaluate(case):
    """Run one case on the real code.  Returns (observation, model_lines)."""
    fam = case["family"]
    if fam == "connect":
        from harness.core import vloop

        fault = tuple(case["fault"]) if case["fault"] else None
        obs = vloop.run(run_connect, case["subset"], fault, case.get("delays"), case.get("closes"), case.get("lost"), case.get("slow"), case.get("cargs"))
        mfault = (4 * fault[0] + fault[1], fault[2]) if fault else None
        return obs, [f"run connect:{csv([str(i) for i in case['subset']])} - {fault_str(mfault)}"]
    if fam == "single":
        op, vol = tuple(case["op"]), case["vol"]
        fault = tuple(case["fault"]) if case["fault"] else None
        obs = run_async(scenario_single(op, vol, fault[0] if fault else None, fault[1] if fault else "fail",
                                        tuple(case["foreign"]), case.get("raop_props"), case.get("args"), case.get("slow")))
        a = case.get("args") or {}
        if op[0] == "stream" and a.get("metadata") == "bad":
            op = ("stream", True)       # some metadata object was passed: no get_metadata call ...
        if op[0] == "stream" and a.get("override") is True and (op[1] or a.get("metadata")):
            op = ("stream", False)      # ... unless override_missing_metadata asks for the file's metadata too
        if case.get("raop_props") is not None:
            # the model counterpart of "the helper raises on this TXT record": a failure at the
            # synchronous point of that helper
            k = obs["names"].index("sync:get_protocol_version") if "sync:get_protocol_version" in obs["names"] else 0
            fault = (k, "fail")
        return obs, [f"run {op_name(op, vol)} {csv(obs['env'])} {fault_str(fault)}"]
    if fam == "overlap":
        op1, op2, vol = tuple(case["op1"]), tuple(case["op2"]), case["vol"]
        fault2 = tuple(case["fault2"]) if case["fault2"] else None
        obs = run_async(scenario_overlap(op1, op2, vol, case["park"], fault2[0] if fault2 else None,
                                         fault2[1] if fault2 else "fail"))
        lines = [f"held {op_name(op1, vol)} - {case['park']}"]
        if obs["reached"]:
            lines.append(f"run {op_name(op2, vol)} {csv(obs['held'])} {fault_str(fault2)}")
            lines.append(f"run {op_name(op1, vol)} - -")
        return obs, lines
    if fam == "seq":
        obs = run_async(scenario_seq(case["vol"], case["steps"]))
        lines = []
        for st, o in zip(case["steps"], obs["steps"]):
            fault = tuple(st["fault"]) if st["fault"] else None
            lines.append(f"run {op_name(tuple(st['op']), o['volflag'])} {csv(o['env'])} {fault_str(fault)}")
        return obs, lines
    raise ValueError(fam)


async def scenario_seq(vol_known, steps):
    """Several calls one after the other on ONE device object; between calls a foreign
    protocol may take over / release interfaces."""
    rig = await Rig(vol_known).setup()
    out = []
    try:
        before_tasks = set(asyncio.all_tasks())
        for st in steps:
            if st["foreign"] is not None:
                if rig.foreign_release:
                    rig.foreign_release()
                    rig.foreign_release = None
                if st["foreign"]:
                    rig.foreign_takeover(st["foreign"])
            env = rig.world.ledger()
            ids0 = rig.world.open_ids()
            fault = st["fault"]
            plan = Plan(fault[0], fault[1]) if fault else Plan()
            # which script variant applies is decided by real state: the receiver's initial
            # volume is only used while the volume has never been set on this device object
            volflag = [cfg(vol_known)[0] and not rig.raop.audio.has_changed_volume, cfg(vol_known)[1]]
            o = await rig.run_op(tuple(st["op"]), plan)
            out.append({"outcome": o, "env": env, "ledger": rig.world.ledger(), "points": plan.n, "volflag": volflag,
                        "untouched": all(x in rig.world.open_ids() for x in ids0),
                        "stray_tasks": len(stray(before_tasks))})
        if rig.foreign_release:
            rig.foreign_release()
        later = await rig.run_op(("stream", True), Plan())
        return {"steps": out, "later": later, "later_ledger": rig.world.ledger()}
    finally:
        rig.teardown()


def parse_run(ans):
    parts = ans.split(" ")
    if len(parts) != 3:
        return None
    return {"outcome": parts[0], "ledger": [] if parts[1] == "-" else parts[1].split(","), "points": int(parts[2])}


def point_name(obs, fault):
    names = obs.get("names") or []
    if fault and fault[0] < len(names):
        return names[fault[0]]
    return "-"


def judge(case, obs):
    """The property, evaluated directly on what the real code did (independent of the
    Lean model).  Returns [(sig, what)]."""
    fam = case["family"]
    bad = []
    if fam == "connect":
        injected_cancel = bool(case["fault"]) and base_kind(case["fault"][2]) == "cancel"   # outside the property
        if obs["outcome"] != "ok" and not injected_cancel:            # connect() raised
            step = CONNECT_STEPS[case["fault"][1]] if case["fault"] else "-"
            if obs["ledger_at_return"] or obs["pending_at_return"]:
                bad.append((f"connect:pending-at-return@{step}",
                            f"when connect() raised ({obs['outcome']}; close scripts {case.get('closes')}) it still held "
                            f"{obs['ledger_at_return']} and {obs['pending_at_return']} task(s) were pending"))
            if obs["ledger"]:
                bad.append((f"connect:leak@{step}", f"connect() failed (in {step} of protocol #{case['fault'][0]} of {case['subset']}, "
                            f"delays {case.get('delays')}) but after draining the loop still holds {obs['ledger']}"))
            if obs["stray_tasks"]:
                bad.append((f"connect:task@{step}", f"{obs['stray_tasks']} background task(s) left behind by failed connect()"))
        return bad

    def failed_call(tag, o, env, later=None, later_ledger=None):
        if o["outcome"] == "ok":
            return          # any exception out of the call is a failed operation
        if o["ledger"] != env:
            extra = list(o["ledger"])
            for x in env:
                if x in extra:
                    extra.remove(x)
            missing = [x for x in env if o["ledger"].count(x) < env.count(x)]
            if extra:
                bad.append((f"{tag}:leak:{o['outcome']}", f"{o['outcome']} call still holds {extra} (ledger before {env}, after {o['ledger']})"))
            if missing:
                bad.append((f"{tag}:disturbed:{o['outcome']}", f"{o['outcome']} call released what others held: {missing}"))
        if not o.get("untouched", True):
            bad.append((f"{tag}:disturbed:{o['outcome']}", "objects held before the call were closed by the failed call"))
        if o.get("stray_tasks"):
            bad.append((f"{tag}:task:{o['outcome']}", f"{o['stray_tasks']} task(s) left behind"))

    if fam == "single":
        tag = case["op"][0] + "@" + point_name(obs, case["fault"]) + ("+foreign" if case["foreign"] else "")
        failed_call(tag, obs, obs["env"])
        # also when the injected fault was swallowed by the call (it reports ok): a step of it
        # failed / was cancelled, and a later stream must still start normally
        if case.get("raop_props") is not None:
            # the receiver's TXT record stays unparsable: the later attempt must fail the same
            # way (not with "already streaming")
            if obs["later"] != obs["outcome"]:
                bad.append((f"{tag}:later-stream:{obs['outcome']}",
                            f"after a call failing with {obs['outcome']} a new stream_file ends with {obs['later']}"))
        elif (obs["outcome"] != "ok" or case["fault"]) and obs["later"] != "ok":
            bad.append((f"{tag}:later-stream:{obs['outcome']}",
                        f"after a {obs['outcome']} call (fault {case['fault']}) a new stream_file ends with {obs['later']}"))
    elif fam == "overlap":
        if not obs["reached"]:
            return bad
        tag = f"overlap:{case['op1'][0]}/{case['op2'][0]}"
        failed_call(tag, {"outcome": obs["outcome2"], "ledger": obs["ledger2"], "untouched": obs["untouched"]}, obs["held"])
        if obs["outcome2"] != "ok" and obs["later"] != "ok":
            bad.append((f"{tag}:later-stream", f"after the overlap a new stream_file ends with {obs['later']}"))
    elif fam == "seq":
        anyfail = False
        for i, o in enumerate(obs["steps"]):
            failed_call(f"seq:{case['steps'][i]['op'][0]}", o, o["env"])
            anyfail = anyfail or o["outcome"] in ("fail", "cancel", "refused")
        if anyfail and not bad and obs["later"] != "ok":
            bad.append(("seq:later-stream", f"after the sequence a new stream_file ends with {obs['later']}"))
    return bad


def compare(ctx, case, obs, answers):
    """Correspondence: model answers vs. the real code."""
    fam = case["family"]

    def cmp_run(ans, o, where, kind=None):
        if kind and ":" in kind and o["outcome"] != "fail":
            # a failure of this CLASS is handled by the code itself (retry, "connection lost
            # means playback ended", ...): outside the model, only the oracle applies
            ctx.note("class-handled:" + kind.split(":")[1])
            return
        m = parse_run(ans)
        impl = {"outcome": o["outcome"], "ledger": o["ledger"], "points": o["points"]}
        if case.get("raop_props") is not None and impl["outcome"].startswith("err:"):
            impl["outcome"] = "fail"    # the real helper raised its own exception class
        if fam == "connect" and o.get("ledger_at_return") != o["ledger"]:
            ctx.disagree(case, {"at_return": o.get("ledger_at_return"), "after_drain": o["ledger"]}, ans,
                         where="connect: ledger changed after connect() had returned")
        ctx.validated()
        if m != impl:
            ctx.disagree(case, impl, ans, where=where)

    if fam == "single" and case.get("args") is not None and (
            obs["outcome"].startswith("err:") or args_key(case) in OWN_FAIL):
        # the call's own arguments make it fail (at a place that is not a collaborator call): oracle only
        ctx.note("args:own-failure:" + (obs["outcome"][4:] if obs["outcome"].startswith("err:") else "with-fault"))
        return
    if fam == "connect" and case.get("cargs") and obs["outcome"].startswith("err:"):
        ctx.note("connect-args:own-failure:" + obs["outcome"][4:])      # rejected by its own arguments: oracle only
        return
    if fam == "connect" and case.get("lost") is not None:
        ctx.note("connect:lost-during-connect")     # early close by the device listener: oracle only
        return
    if fam in ("connect", "single"):
        cmp_run(answers[0], obs, fam, (case["fault"] or [None])[-1] if case["fault"] else None)
    elif fam == "overlap":
        ctx.validated()
        if not obs["reached"]:
            if answers[0] != "end":
                ctx.disagree(case, "end", answers[0], where="overlap: park point reachable?")
            return
        if answers[0] != csv(obs["held"]):
            ctx.disagree(case, csv(obs["held"]), answers[0], where="overlap: held while parked")
        cmp_run(answers[1], {"outcome": obs["outcome2"], "ledger": obs["ledger2"], "points": obs["points2"]}, "overlap: second call",
                (case["fault2"] or [None])[-1] if case["fault2"] else None)
        m1 = parse_run(answers[2])
        ctx.validated()
        if m1 is None or m1["outcome"] != obs["outcome1"] or m1["ledger"] != obs["ledger1"]:
            ctx.disagree(case, [obs["outcome1"], obs["ledger1"]], answers[2], where="overlap: first call resumed")
    elif fam == "seq":
        for ans, o, st in zip(answers, obs["steps"], case["steps"]):
            cmp_run(ans, o, "seq step", st["fault"][-1] if st["fault"] else None)


def dry_points(op, vol):
    """Names of the collaborator calls of a fault-free run (`sync:` = synchronous helper)."""
    return run_async(scenario_single(op, vol, None, "fail"))["names"]


def faults_for(names, limit=None, classes=0, salt=0):
    """[point, kind] for every point: a failure (default class), a cancellation (awaits only) and
    `classes` more failures of other exception classes (rotating through EXC_CLASSES; all if < 0)."""
    out = []
    for k, name in enumerate(names[:limit] if limit else names):
        out.append([k, "fail"])
        if not name.startswith("sync:"):
            out.append([k, "cancel"])
        n = len(EXC_CLASSES) if classes < 0 else classes
        for j in range(n):
            out.append([k, "fail:" + EXC_CLASSES[(k * max(n, 1) + j + salt) % len(EXC_CLASSES)]])
    return out


def gen_cases(ctx):
    cases = []
    # A. connect(): every subset x every failing position (+ success; + cancellation, compared only)
    #    the failure strikes in any of the four per-protocol collaborator calls; the connects take
    #    scripted (virtual) time, so overlapping connect phases show if the code allows them
    n = len(protocol_order())
    crng = ctx.rng.fork("connect-delays")
    for mask in range(1, 2 ** n):
        subset = [i for i in range(n) if mask >> i & 1]
        m = len(subset)
        cases.append({"family": "connect", "subset": subset, "fault": None, "delays": [0] * m})
        cases.append({"family": "connect", "subset": subset, "fault": None,
                      "delays": [round(0.1 * (1 + crng.randint(0, 4)), 2) for _ in range(m)]})
        for k in range(m):
            patterns = [[0] * m,
                        [0.05 if j == k else round(0.2 + 0.1 * j, 2) for j in range(m)]]      # failing one is fastest
            if ctx.thorough:
                patterns.append([0.5 if j == k else 0.1 for j in range(m)])                  # failing one is slowest
            patterns.append([round(0.05 * crng.randint(0, 8), 2) for _ in range(m)])
            for step in range(len(CONNECT_STEPS)):
                for delays in patterns:
                    cases.append({"family": "connect", "subset": subset, "fault": [k, step, "fail"], "delays": delays})
            if ctx.thorough or k == m - 1:
                cases.append({"family": "connect", "subset": subset, "fault": [k, 0, "cancel"], "delays": patterns[1]})
            # the exception CLASS of the failure (OSError family, timeouts, pyatv errors, ...)
            for step in range(len(CONNECT_STEPS)):
                chosen = EXC_CLASSES if (ctx.thorough or (step == 0 and m <= 2)) else \
                    [EXC_CLASSES[(mask + 3 * k + step + j) % len(EXC_CLASSES)] for j in range(2)]
                for cls in chosen:
                    cases.append({"family": "connect", "subset": subset, "fault": [k, step, "fail:" + cls],
                                  "delays": [0] * m})
            # ARGUMENTS of connect()
            others = [i for i in range(n) if i not in subset]
            for ca in ([{"also": others[:2]}, {"session": True, "protocol": subset[0]}] if others else [{"session": True}]) + \
                    ([{"noid": True}, {"storage": "raise"}] if k == m - 1 else []):
                cases.append({"family": "connect", "subset": subset, "fault": [k, (k + mask) % 4, "fail"],
                              "delays": [0] * m, "cargs": ca})
            # the HTTP session takes (virtual) time to close
            for d in ((1, 4, 10, 60) if (ctx.thorough or m <= 2) else (60,)):
                cases.append({"family": "connect", "subset": subset, "fault": [k, (k + d) % 4, "fail"],
                              "delays": [0] * m, "slow": d})
            # an already connected protocol loses its connection while connect() is still under way
            if k >= 1:
                for lost in range(k if ctx.thorough else 1):
                    for step in (0, 3):
                        cases.append({"family": "connect", "subset": subset, "fault": [k, step, "fail"],
                                      "delays": [0] * m, "lost": lost})
                        if lost + 1 < k:
                            cases.append({"family": "connect", "subset": subset, "fault": [k, step, "fail"],
                                          "delays": [0] * m, "lost": [lost]})
            # close() of the protocols already connected returns tasks that raise / finish late
            if k >= 1:
                modes = ["sync", "late", "raise"]
                cpats = [["raise" if j == 0 else "late" for j in range(m)],
                         ["late" if j == 0 else "raise" for j in range(m)],
                         [modes[crng.randint(0, 2)] for _ in range(m)]]
                # durations of the close coroutines (virtual seconds): 0, 1, 4, 10, 60
                durs = [0, 1, 4, 10, 60]
                for d in (durs if (ctx.thorough or m <= 3) else [durs[(mask + k) % len(durs)], 60]):
                    cpats.append([f"late:{d}" if j == (mask + d) % k else "sync" for j in range(m)])
                cpats.append([f"late:{durs[(j + mask) % len(durs)]}" for j in range(m)])
                for step in ((0, 3) if not ctx.thorough else range(len(CONNECT_STEPS))):
                    for cp in cpats:
                        cases.append({"family": "connect", "subset": subset, "fault": [k, step, "fail"],
                                      "delays": [0] * m, "closes": cp})
    # B. one streaming call, a failure and a cancellation at every collaborator call (one level
    #    below the stream objects: RTSP requests, pair-verify, event channel, UDP endpoints),
    #    for AirPlay 1 and AirPlay 2 receivers, alone and while another protocol holds a takeover
    names = {}
    key = lambda op, c: (tuple(op), tuple(c if op[0] == "stream" else [True, c[1]]))
    foreigns = [[], [3], [0], [0, 1, 2, 3]]
    for op, c in variants():
        names[key(op, c)] = nm = dry_points(op, c)
        for foreign in foreigns:
            salt = sum(map(ord, op[0])) + 2 * op[1] + 4 * c[0] + 8 * c[1]
            faults = [None] + faults_for(nm, 2 if (foreign and not ctx.thorough) else None,
                                         classes=(-1 if ctx.thorough else 3) if not foreign else 0, salt=salt)
            for f in faults:
                cases.append({"family": "single", "op": list(op), "vol": c, "fault": f, "foreign": foreign})
    #    DURATIONS of the awaited releases (audio source, web server): 1..60 virtual seconds
    for op, c in variants():
        nm = names[key(op, c)]
        for d in (1, 4, 10, 60):
            picks = [None] + faults_for(nm)[(d % 3)::(3 if ctx.thorough else 7)]
            for f in picks:
                cases.append({"family": "single", "op": list(op), "vol": c, "fault": f, "foreign": [], "slow": d})
    #    ARGUMENT VALUES of the calls themselves, including ones that make the call fail on its own
    play_args = [{"position": v} for v in (0, 5, "7", 2.5, -1, "1:30", "__none__", "", [1], 10 ** 30)] + \
                [{"kwargs": {"foo": 1}}, {"kwargs": {"position": "x", "volume": 2}}]
    stream_args = [{"metadata": "bad"}, {"metadata": "bad", "override": True}, {"override": True},
                   {"override": "__none__"}, {"kwargs": {"foo": 1, "bar": "__none__"}}, {"file": "__none__"},
                   {"file": 123}, {"file": ""}]
    for op, c in variants():
        for a in (play_args if op[0] == "play" else stream_args):
            for foreign in ([], [3]):
                cases.append({"family": "single", "op": list(op), "vol": c, "fault": None, "foreign": foreign, "args": a})
            nm = names[key(op, c)]
            k = (len(str(a)) + len(nm)) % len(nm)         # together with a collaborator failure somewhere
            kind = "fail" if nm[k].startswith("sync:") or k % 2 else "cancel"
            cases.append({"family": "single", "op": list(op), "vol": c, "fault": [k, kind], "foreign": [], "args": a})
    #    receivers whose TXT record makes helper parsing raise between two collaborator calls
    for props in ({"ft": "0X4A7FCA00,0xBC354BD0"}, {"features": "zz"}, {"ft": ""}):
        for op in (("stream", True), ("stream", False)):
            cases.append({"family": "single", "op": list(op), "vol": [True, False], "fault": None, "foreign": [],
                          "raop_props": props})
    # C. every overlap of two calls: the first parked at every point, then a second call
    over_cfgs = STREAM_CFGS if ctx.thorough else [[True, False], [True, True], [False, True]]
    for op1, c in variants(over_cfgs):
        if not ctx.thorough and op1[0] == "stream" and not op1[1] and c != [True, True]:
            continue
        nm1 = names[key(op1, c)]
        for park in range(len(nm1) + 1):       # +1: a point the call never reaches
            if park < len(nm1) and nm1[park].startswith("sync:"):
                continue                       # a call cannot be suspended in a synchronous helper
            for op2 in OPS:
                nm2 = names[key(op2, c)]
                faults = [None] + faults_for(nm2, None if ctx.thorough else 2)
                for f2 in faults:
                    cases.append({"family": "overlap", "op1": list(op1), "op2": list(op2), "vol": c,
                                  "park": park, "fault2": f2})
    # D. PRNG-chosen sequences of calls on one device object
    rng = ctx.rng.fork("seq")
    for _ in range(ctx.scale(60, 600)):
        c = [rng.random() < 0.5, rng.random() < 0.5]
        steps = []
        for _i in range(rng.randint(2, 5)):
            op = OPS[rng.randint(0, len(OPS) - 1)]
            nm = names[key(op, c)]
            r = rng.random()
            fault = None
            if r >= 0.2:
                k = rng.randint(0, len(nm) - 1)
                fault = [k, "fail" if (rng.random() < 0.5 or nm[k].startswith("sync:")) else "cancel"]
                if fault[1] == "fail" and rng.random() < 0.5:
                    fault[1] = "fail:" + EXC_CLASSES[rng.randint(0, len(EXC_CLASSES) - 1)]
            fr = rng.random()
            foreign = None if fr < 0.5 else ([] if fr < 0.7 else sorted(set(rng.randint(0, 3) for _ in range(rng.randint(1, 3)))))
            steps.append({"op": list(op), "fault": fault, "foreign": foreign})
        cases.append({"family": "seq", "vol": c, "steps": steps})
    return cases


def nontrivial(case, obs):
    fam = case["family"]
    if fam == "connect":
        return obs["outcome"] == "fail" and (case["fault"][0] >= 1 or case["fault"][1] >= 1)
    if fam == "single":
        return obs["outcome"] in ("fail", "cancel", "refused") and (bool(obs["env"]) or (case["fault"] or [0])[0] >= 1)
    if fam == "overlap":
        return obs.get("reached") and obs["outcome2"] in ("fail", "cancel", "refused") and bool(obs["held"])
    return sum(1 for o in obs["steps"] if o["outcome"] in ("fail", "cancel", "refused")) >= 1


OWN_FAIL = set()


def args_key(case):
    import json

    return json.dumps([case["op"], case["vol"], case.get("args")], sort_keys=True)


def run(ctx, only=None):
    cases = only if only is not None else gen_cases(ctx)
    evaluated = []
    lines = []
    for case in cases:
        try:
            obs, ml = evaluate(case)
        except Exception as ex:  # the harness never crashes on changed code: an observation
            obs, ml = {"outcome": "err:" + type(ex).__name__, "harness_error": repr(ex)[:300]}, []
        evaluated.append((case, obs, len(lines), len(ml)))
        lines += ml
    answers = ctx.lean(lines)
    for case, obs, _s, _c in evaluated:
        if case["family"] == "single" and case.get("args") is not None and not case["fault"] \
                and not case["foreign"] and str(obs.get("outcome", "")).startswith("err:"):
            OWN_FAIL.add(args_key(case))
    for case, obs, start, cnt in evaluated:
        fam = case["family"]
        ctx.note("family:" + fam)
        if "harness_error" in obs:
            ctx.disagree(case, obs, "n/a", where="real code raised outside the operation under test")
            ctx.case(case, False)
            continue
        if fam in ("connect", "single"):
            ctx.note(f"{fam}:outcome:{obs['outcome']}")
            if fam == "connect":
                f = case["fault"]
                ctx.note("connect:fault:" + (f"{CONNECT_STEPS[f[1]]}:{f[2]}" if f else "none"))
                ctx.note("connect:delays:" + ("none" if not any(case.get("delays") or []) else "scripted"))
            else:
                ctx.note(f"{fam}:fault:{(case['fault'] or [None, 'none'])[1]}")
        elif fam == "overlap" and obs["reached"]:
            ctx.note(f"overlap:second:{obs['outcome2']}")
        elif fam == "seq":
            for o in obs["steps"]:
                ctx.note(f"seq:outcome:{o['outcome']}")
        ctx.case(case, bool(nontrivial(case, obs)), sample={"case": case, "observed": {k: v for k, v in obs.items() if k != "names"}})
        compare(ctx, case, obs, answers[start:start + cnt])
        for sig, what in judge(case, obs):
            ctx.fail(sig, case, {k: v for k, v in obs.items()}, "ledger after a failed/cancelled/refused call = ledger before; later stream_file accepted", what)
    if only is None:
        ctx.exhaustive = False
        ctx.notes["exhaustive_parts"] = ("connect: all 31 non-empty protocol subsets x every failing position; streams: every "
                                         "collaborator call x {failure, cancellation} for all six script variants; overlaps: every park point")


def widen(ctx):
    run(ctx)


def replay(ctx, failure):
    case = failure["case"]
    obs, _ = evaluate(case)
    return bool(judge(case, obs))


def shrink(ctx, failure):
    """Sequences: drop steps while the failure persists."""
    case = failure["case"]
    if case.get("family") != "seq":
        return failure
    steps = list(case["steps"])
    i = 0
    while i < len(steps) and len(steps) > 1:
        cand = dict(case, steps=steps[:i] + steps[i + 1:])
        try:
            obs, _ = evaluate(cand)
            if any(s == failure["sig"] for s, _w in judge(cand, obs)):
                steps = cand["steps"]
                continue
        except Exception:
            pass
        i += 1
    c2 = dict(case, steps=steps)
    obs, _ = evaluate(c2)
    return dict(failure, case=c2, observed=obs)
