"""C09 — correspondence + direct oracle: closing or losing a connection is final and
reported once.

Real code driven: `pyatv.core.facade.FacadeAppleTV` (constructed exactly as
`pyatv.connect` does, the facade itself being the `device_listener` StateProducer) with
1..3 dummy protocols registered through real `SetupData` (connect/close callables, an
interfaces map with a RemoteControl, a Features and a real `AbstractPushUpdater`
subclass, features), a user `DeviceListener` and a user `PushListener`.  Reports reach
the facade the way the protocols make them:
`device_listener.listener.connection_lost(exc)` / `.connection_closed()`, either directly
(DMAP's `_close`) or through the real `MrpConnection.connection_lost`,
`CompanionConnection.connection_lost`, `AirPlayMrpConnection.handle_connection_lost`.
A protocol's `close()` emits a configurable list of reports re-entrantly and returns a
set of real tasks.

The user's listeners are *scripted user code*: when a handler is invoked it records the
call, then makes the public-API calls and `close()` calls its behaviour lists from INSIDE
the callback (recording what each one saw), and finally raises if told to.  The
behaviour is part of each report / push token, so model and oracle quantify over it.

Tokens (shared with the Lean driver, see lean/PyatvModel/C09/Driver.lean):
  r<i>c<beh> | r<i>l<e><beh>  protocol i reports closed | lost(exception e);  u  atv.close();
  a<m>  public member m of the generated table, on the object the user holds;
  s | t  push_updater.start()/stop();  p<i><beh>  protocol i's push updater posts an update;
  <beh> = [~a<m>+u+...][!]   calls made from inside the handler, `!` = the handler then raises.
"""
import asyncio
import gc
import inspect
import itertools

RULE = ("event sequences over {protocol i reports lost(exc)|closed, user close(), public API call on the top "
        "object / on a held interface object} for 1..3 protocols x close()-time report configurations x listener "
        "set/unset x listener behaviour {returns, raises, calls the API and close() from inside the callback, both}: "
        "exhaustive up to a tier-dependent length (a push-update probe and an API probe follow every event), then longer "
        "sequences sampled from ctx.rng with random handler behaviours (DeviceListener and PushListener), each followed "
        "by a sweep over every public member of every facade object; non-trivial = the device gets closed or reported "
        "lost AND something happens afterwards or inside the callback (another report, a second close(), an API call); "
        "distinct = (listener, protocol configs, reporters, event list)")
ASSUMPTIONS = [
    "the user keeps a strong reference to the DeviceListener it registered (a listener that was set and then "
    "garbage-collected is outside the property's quantifier: such runs are compared with the model and recorded, not judged)",
    "the DeviceListener implements both methods of pyatv.interface.DeviceListener",
    "Features.in_state(states) with no feature names (a query that touches nothing) is not counted as a call on the device",
    "reports are delivered at event granularity: a report is the evaluation of device_listener.listener.<method>, as in the protocols",
    "'the registered device listener receives at most one notification over the lifetime of one device object' is counted over "
    "ALL listener objects the application registers during that lifetime (atv.listener may be assigned again, to the same object, a new "
    "one, or None, at any point)",
    "between two close() calls the tasks handed out may complete, stay pending (closing the session takes a moment) or be cancelled "
    "by the caller (wait_for timeout): every later close() must hand out the same task objects, plus only tasks created by protocols "
    "that are closed late — a new task replacing one already handed out violates 'returns the same pending tasks'",
    "'returns the same pending tasks' is judged on the contents of the returned set at every close(), with the event loop "
    "given the chance to complete the tasks in between, and the set must be awaitable by iterating it",
    "a protocol's own push updater may raise from start() (push_updater.start() then fails half-way); a protocol updater raising "
    "from stop() would make close() itself fail and is outside the histories considered",
    "'after any protocol reports' includes the notification callback itself: a public-API call made from inside the "
    "DeviceListener callback must already raise BlockedStateError, and the device must be blocked whether or not the callback raises",
    "an exception raised by the user's own handler may propagate to whoever invoked it (the reporting protocol, or the "
    "user's own close() call when a protocol reports while being closed): that is not judged; what the device does afterwards is",
]
TRUSTED = ["the dummy protocols, session manager and scripted listeners of harness/c09.py",
           "tools/gen/c09.py introspection of shield.guard wrappers (cross-checked each run by calling every member after close)"]

PROTOCOL_ORDER = ["MRP", "DMAP", "Companion"]          # decreasing facade priority: protocol 0 is the main instance
DEFAULT_REPORTERS = ["mrp", "direct", "companion"]
N_EXC = 4


class UserBug(Exception):
    """raised by the scripted user handlers"""


# ------------------------------------------------------------------------------ tokens

def split_beh(tok):
    """'c~a10+u!' -> ('c', ['a10', 'u'], True)"""
    raises = tok.endswith("!")
    if raises:
        tok = tok[:-1]
    if "~" in tok:
        head, inner = tok.split("~", 1)
        inner = inner.split("+")
    else:
        head, inner = tok, []
    return head, inner, raises


# ------------------------------------------------------------------------------ fakes

class _Session:
    def __init__(self, env=None):
        self.closed = 0
        self.env = env

    async def close(self):
        if self.env is not None and self.env.hold:
            await self.env.task_gate.wait()     # closing the session takes a moment
        self.closed += 1


async def _noop():
    return None


def make_classes():
    from pyatv import interface
    from pyatv.const import FeatureState
    from pyatv.core import AbstractPushUpdater

    class Recorder(interface.DeviceListener):
        def __init__(self, env):
            self.env = env

        def _handle(self, kind, exception):
            env = self.env
            cur = env.current
            env.notified.append((cur, kind, exception))
            _h, inner, raises = env.behaviours.get(cur, ("", [], False))
            env.run_inner("d", inner)
            if raises:
                raise UserBug("device listener handler")

        def connection_lost(self, exception):
            self._handle("l", exception)

        def connection_closed(self):
            self._handle("c", None)

    class PushRecorder(interface.PushListener):
        def __init__(self, env):
            self.env = env

        def playstatus_update(self, updater, playstatus):
            env = self.env
            env.pushed += 1
            inner, raises = env.push_behaviour
            env.run_inner("p", inner)
            if raises:
                raise UserBug("push listener handler")

        def playstatus_error(self, updater, exception):
            self.env.push_errors += 1

    class DummyRC(interface.RemoteControl):
        def __init__(self, env):
            self.env = env

        async def play(self):
            self.env.rc_calls += 1

    class DummyFeatures(interface.Features):
        def get_feature(self, feature_name):
            return interface.FeatureInfo(FeatureState.Available)

    class DummyPush(AbstractPushUpdater):
        def __init__(self, sd):
            super().__init__(sd)
            self._active = False

        @property
        def active(self):
            return self._active

        def start(self, initial_delay=0):
            if self.fault_env is not None and self.fault_env.fault_start == self.index:
                raise RuntimeError("protocol push updater failed to start")
            self._active = True

        def stop(self):
            self._active = False

        fault_env = None
        index = -1

    return Recorder, PushRecorder, DummyRC, DummyFeatures, DummyPush


class Env:
    """One device object with its protocols, listeners and logs."""

    def __init__(self, shared, lmode, protos, reporters):
        from pyatv import interface
        from pyatv.const import FeatureName, Protocol
        from pyatv.core import CoreStateDispatcher, ProtocolStateDispatcher, SetupData
        from pyatv.core.facade import FacadeAppleTV

        env = self
        self.shared = shared
        self.loop = asyncio.get_event_loop()
        self.session = _Session(self)
        self.hold = False              # the tasks close() hands out stay pending until the history is over
        self.task_gate = asyncio.Event()
        self.proto_tasks = set()       # every task a protocol's close() has returned
        self.dispatcher = CoreStateDispatcher()
        self.atv = FacadeAppleTV(shared["config"], self.session, self.dispatcher, shared["settings"])
        self.reports = []          # (i, kind, exc) in emission order
        self.behaviours = {}       # report number -> (head, inner, raises): what the handler does if invoked for it
        self.push_behaviour = ([], False)
        self.current = None
        self.notified = []         # what the user's DeviceListener received
        self.close_log = []
        self.pushed = 0
        self.push_errors = 0
        self.escaped = []          # library exceptions that escaped from close()/a report
        self.sets = []             # distinct objects returned by close(), strong refs
        self.returned = []         # every object returned by any close() (top-level or from inside a callback)
        self.inner_log = []        # "<d|p><tok>=<out>"
        self.problems = []
        self.premise = False       # closed by the user, or some protocol reported
        self.loop_errors = []
        self.excs = shared["excs"]
        self.rc_calls = 0
        self.final = (0, None)
        self.fault_start = None
        self.snapshots = []        # contents of the set at every top-level close() return
        self.iter_checked = False
        self.gates = [asyncio.Event() for _ in protos]
        self.connected0 = len(protos)
        self.connect_task = None
        self.extra_refs = []
        self.device_collected = None

        Recorder, PushRecorder, DummyRC, DummyFeatures, DummyPush = shared["classes"]

        self.pushers = []
        self.reporter_objs = []
        for i, (tasks, kinds) in enumerate(protos):
            proto = getattr(Protocol, PROTOCOL_ORDER[i])
            pusher = DummyPush(ProtocolStateDispatcher(proto, self.dispatcher))
            pusher.fault_env, pusher.index = env, i
            self.pushers.append(pusher)
            self.reporter_objs.append(self._make_reporter(reporters[i]))

            def make(i, tasks, kinds):
                async def connect():
                    await env.gates[i].wait()      # suspension point: anything can happen meanwhile
                    return True

                def close():
                    env.close_log.append(i)
                    for kd in kinds:
                        env.report(i, kd)
                    made = {asyncio.ensure_future(env.task_body()) for _ in range(tasks)}
                    env.proto_tasks |= made
                    return made

                return connect, close

            connect, close = make(i, tasks, kinds)
            self.atv.add_protocol(SetupData(
                proto, connect, close, lambda: {},
                {interface.RemoteControl: DummyRC(env), interface.Features: DummyFeatures(),
                 interface.PushUpdater: pusher},
                {FeatureName.Play},
            ))
        self.lmode = lmode
        self.listener_obj = None
        self.push_listener = PushRecorder(env)
        self.push_listeners = [self.push_listener]
        self.listeners = []        # every DeviceListener object registered during the lifetime (strong references)
        self._Recorder = Recorder

    def _make_reporter(self, kind):
        atv = self.atv
        if kind == "mrp":
            from pyatv.protocols.mrp.connection import MrpConnection
            conn = MrpConnection("127.0.0.1", 0, self.loop, atv=atv)
            return lambda exc: conn.connection_lost(exc)
        if kind == "companion":
            from pyatv.protocols.companion.connection import CompanionConnection
            conn = CompanionConnection(self.loop, "127.0.0.1", 0, device_listener=atv)
            return lambda exc: conn.connection_lost(exc)
        if kind == "airplay":
            from pyatv.protocols.airplay.mrp_connection import AirPlayMrpConnection
            conn = AirPlayMrpConnection(None, atv)
            return lambda exc: conn.connection_lost(exc)

        def direct(exc):
            # pyatv/protocols/dmap/__init__.py:693 / :513
            if exc is None:
                atv.listener.connection_closed()
            else:
                atv.listener.connection_lost(exc)
        return direct

    async def settle(self, want):
        """let FacadeAppleTV.connect() run until `want` protocols are registered (or it is done)"""
        for _ in range(12):
            if self.connect_task.done() or len(self.atv._protocol_handlers) >= want:
                break
            await asyncio.sleep(0)
        if self.connect_task.done() and self.connect_task.exception() is not None:
            self.escaped.append("connect:" + type(self.connect_task.exception()).__name__)

    async def connect_next(self):
        if self.atv is None or self.connect_task.done():
            return
        nxt = next((g for g in self.gates if not g.is_set()), None)
        if nxt is None:
            return
        nxt.set()
        await self.settle(sum(1 for g in self.gates if g.is_set()))
        if all(g.is_set() for g in self.gates):
            for _ in range(6):
                if self.connect_task.done():
                    break
                await asyncio.sleep(0)

    async def finish_connect(self):
        while self.atv is not None and not self.connect_task.done() and not all(g.is_set() for g in self.gates):
            await self.connect_next()
        if self.connect_task is not None and not self.connect_task.done():
            try:
                await asyncio.wait_for(self.connect_task, 1)
            except Exception as ex:
                self.escaped.append("connect:" + type(ex).__name__)

    async def setup(self, connected0=None):
        # FacadeAppleTV.connect() awaits the protocols' connect() one after the other; the first
        # `connected0` complete at once, the others when the history says so (token `c`)
        self.connected0 = len(self.gates) if connected0 is None else connected0
        for g in self.gates[:self.connected0]:
            g.set()
        if all(g.is_set() for g in self.gates):
            # nothing left to wait for: connect() runs through (same code path, no scheduling needed)
            self.connect_task = asyncio.get_event_loop().create_future()
            try:
                await self.atv.connect()
                self.connect_task.set_result(None)
            except Exception as ex:
                self.connect_task.set_result(None)
                self.escaped.append("connect:" + type(ex).__name__)
        else:
            self.connect_task = asyncio.ensure_future(self.atv.connect())
            await asyncio.sleep(0)
            await self.settle(self.connected0)
        atv = self.atv
        # the objects a user may hold on to: index = shielded-object number of the table
        names = self.shared["table"]["objects"]
        self.held = [atv] + [atv._interfaces[k] for k in atv._interfaces]
        assert len(self.held) == len(names)
        self.held_pu = atv.push_updater
        self.held_pu.listener = self.push_listener
        if self.lmode in ("a", "d"):
            self.listener_obj = self._Recorder(self)
            atv.listener = self.listener_obj
            if self.lmode != "d":
                self.listeners.append(self.listener_obj)
            if self.lmode == "d":
                import weakref
                probe = weakref.ref(self.listener_obj)
                self.listener_obj = None
                if probe() is not None:      # CPython frees it by reference count; be safe elsewhere
                    gc.collect()

    async def task_body(self):
        if self.hold:
            await self.task_gate.wait()
        return None

    # -- what the user still holds -------------------------------------------------------
    def snapshot(self):
        """(calls_made, _pending_tasks) of the device object (kept from before it was dropped)"""
        if self.atv is not None:
            self.final = (self.atv.calls_made, self.atv._pending_tasks)
        return self.final

    def refetch(self):
        """fetch the interface objects again through the device object's properties (after the
        sequence); anything obtained that is not the object held from before is kept as well"""
        extra = []
        ifaces = list(self.atv._interfaces.keys()) if self.atv is not None else []
        for m, row in enumerate(self.shared["table"]["members"]):
            if row["obj"] != 0 or not row["is_property"]:
                continue
            try:
                got = getattr(self.atv, row["name"])
            except Exception:
                continue
            for j, key in enumerate(ifaces, 1):
                if isinstance(got, key) and got is not self.held[j]:
                    extra.append((j, got))
        self.extra_refs = extra

    def drop_device(self):
        """the user drops every reference to the device object and keeps the interface objects
        (`self.atv = None` in a disconnect handler is the usual pattern); the harness lets go
        of it too, so that it is really collected"""
        import weakref

        self.snapshot()
        probe = weakref.ref(self.atv)
        self.atv = None
        self.held[0] = None
        self.reporter_objs = []          # the real connection objects hold the device listener
        if probe() is not None:          # CPython frees it by reference count unless it sits in a cycle
            gc.collect()
        self.device_collected = probe() is None

    # -- calls ---------------------------------------------------------------------------
    def report(self, i, tok):
        """protocol i evaluates device_listener.listener.<method>(...) for report token `tok`"""
        head, inner, raises = split_beh(tok)
        exc = None if head == "c" else self.excs[int(head[1:])]
        self.reports.append((i, head, exc))
        self.behaviours[len(self.reports) - 1] = (head, inner, raises)
        self.premise = True            # "after any protocol reports": from here on, the callback included
        prev, self.current = self.current, len(self.reports) - 1
        try:
            self.reporter_objs[i](exc)
        finally:
            self.current = prev

    def do_close(self, top=False):
        """atv.close() -> 'set<idx>:<n>' | 'userRaised' | 'raised'"""
        try:
            ret = self.atv.close()
        except UserBug:
            self.premise = True
            return "userRaised"
        except Exception as ex:
            self.premise = True
            self.escaped.append(type(ex).__name__)
            return "raised"
        self.premise = True
        self.returned.append(ret)
        if top:
            try:
                self.snapshots.append(frozenset(ret))
            except Exception:
                self.snapshots.append(None)
        idx = next((j for j, s in enumerate(self.sets) if s is ret), None)
        if idx is None:
            self.sets.append(ret)
            idx = len(self.sets) - 1
        try:
            n = len(ret)
        except Exception:
            n = -1
        return "set%d:%d" % (idx, n)

    def call_member_sync(self, m):
        """-> 'blocked' | 'pass' | 'pass:<ExceptionClass>' (a coroutine that a guard let through is not run)"""
        from pyatv.exceptions import BlockedStateError

        row = self.shared["table"]["members"][m]
        obj = self.held[row["obj"]]
        if obj is None:
            return "gone"
        try:
            if row["is_property"]:
                getattr(obj, row["name"])
            else:
                res = getattr(obj, row["name"])(*self.shared["args"][m])
                if inspect.iscoroutine(res):
                    res.close()
        except BlockedStateError:
            return "blocked"
        except Exception as ex:
            return "pass:" + type(ex).__name__
        return "pass"

    def run_inner(self, who, inner):
        """user code inside a callback: every call's outcome is caught and recorded"""
        members = self.shared["table"]["members"]
        for tok in inner:
            was = self.premise
            if tok == "u":
                out = self.do_close()
                if who == "d" and out in ("raised",):
                    self.problems.append(("callback-close:raised", "close() called from inside the DeviceListener callback raised %s" % self.escaped))
            else:
                out = self.call_member_sync(int(tok[1:])).split(":")[0]
                row = members[int(tok[1:])]
                if was and out != "blocked" and row["kind"] != "closeExempt":
                    where = "the DeviceListener callback" if who == "d" else "a PushListener callback after close/loss"
                    self.problems.append(("callback-api-not-blocked:%s.%s" % (row["iface"], row["name"]),
                                          "%s.%s called from inside %s did not raise BlockedStateError" % (row["iface"], row["name"], where)))
            self.inner_log.append("%s%s=%s" % (who, tok, out))

    async def do(self, tok):
        from pyatv.exceptions import BlockedStateError
        from pyatv.interface import Playing

        if tok == "x":
            self.drop_device()
            return "-"
        if tok in ("L0", "L1", "L2"):
            # the application assigns atv.listener again: None / the object it registered last / a new object
            if self.atv is None:
                return "gone"
            if tok == "L0":
                self.atv.listener = None
            else:
                if tok == "L2" or self.listener_obj is None:
                    self.listener_obj = self._Recorder(self)
                    self.listeners.append(self.listener_obj)
                self.atv.listener = self.listener_obj
            return "-"
        if tok in ("M0", "M1", "M2"):
            if tok == "M0":
                self.held_pu.listener = None
            else:
                if tok == "M2":
                    self.push_listener = type(self.push_listener)(self)
                    self.push_listeners.append(self.push_listener)
                self.held_pu.listener = self.push_listener
            return "-"
        if self.atv is None and (tok[0] == "r" or tok == "u"):
            return "gone"
        if tok[0] == "r":
            try:
                self.report(int(tok[1]), tok[2:])
            except UserBug:
                return "escaped"
            except Exception as ex:  # observation
                self.escaped.append(type(ex).__name__)
                return "exc"
            return "-"
        if tok == "u":
            out = self.do_close(top=True)
            if out.startswith("set") and not self.iter_checked and not self.hold:
                # what an application does with the result: await the tasks, iterating the set
                self.iter_checked = True
                try:
                    for task in self.returned[-1]:
                        await task
                except RuntimeError as ex:
                    self.problems.append(("close-tasks:set-changed-while-awaiting",
                                          "awaiting the tasks while iterating the set close() returned failed: %s" % ex))
                except (Exception, asyncio.CancelledError):
                    pass        # (a task the caller had cancelled earlier)
            await asyncio.sleep(0)      # let whatever close() scheduled run before the next step
            await asyncio.sleep(0)
            return out
        if tok == "c":
            await self.connect_next()
            return "-"
        if tok == "K":
            # the caller gives up waiting: `wait_for(gather(*atv.close()), timeout)` timed out, or the
            # application shuts down — every task handed out so far is cancelled
            for ret in list(self.returned):
                try:
                    for task in list(ret):
                        task.cancel()
                except Exception:
                    pass
            await asyncio.sleep(0)
            await asyncio.sleep(0)
            return "-"
        if tok == "sF":
            # push_updater.start() during which the updater of the protocol registered last raises
            self.fault_start = max(0, len(self.atv._protocol_handlers) - 1) if self.atv is not None else 0
            try:
                self.held_pu.start()
            except BlockedStateError:
                return "blocked"
            except Exception:
                return "faulted"
            finally:
                self.fault_start = None
            return "pass"
        if tok[0] == "a":
            return await self.call_member(int(tok[1:]))
        if tok in ("s", "t"):
            try:
                (self.held_pu.start if tok == "s" else self.held_pu.stop)()
            except BlockedStateError:
                return "blocked"
            except Exception as ex:
                return "pass:" + type(ex).__name__
            return "pass"
        if tok[0] == "p":
            head, inner, raises = split_beh(tok[1:])
            self.push_behaviour = (inner, raises)
            before = self.pushed
            self.shared["n"] += 1
            try:
                self.pushers[int(head)].post_update(Playing(title="t%d" % self.shared["n"]))
            except Exception as ex:
                self.escaped.append("push:" + type(ex).__name__)
            await asyncio.sleep(0)
            return "d1" if self.pushed > before else "d0"
        raise ValueError(tok)

    async def call_member(self, m, via=None):
        """-> 'blocked' | 'pass' | 'pass:<ExceptionClass>' | 'gone' (the object is no longer held)"""
        from pyatv.exceptions import BlockedStateError

        row = self.shared["table"]["members"][m]
        obj = self.held[row["obj"]] if via is None else via
        if obj is None:
            return "gone"
        try:
            if row["is_property"]:
                getattr(obj, row["name"])
            else:
                fn = getattr(obj, row["name"])
                res = fn(*self.shared["args"][m])
                if inspect.isawaitable(res):
                    res = await res
        except BlockedStateError:
            return "blocked"
        except Exception as ex:
            return "pass:" + type(ex).__name__
        return "pass"


def dummy_args(table):
    """one argument list per member (only evaluated when a guard lets the call through)"""
    from pyatv.const import FeatureName, FeatureState
    from tools.gen import c09 as gen

    atv = gen.build_facade()
    held = [atv] + [atv._interfaces[k] for k in atv._interfaces]
    special = {"feature_name": FeatureName.Play, "states": FeatureState.Available, "feature_names": FeatureName.Play}
    out = []
    for row in table["members"]:
        if row["is_property"]:
            out.append(())
            continue
        fn = getattr(type(held[row["obj"]]), row["name"])
        args = []
        try:
            params = list(inspect.signature(fn).parameters.values())[1:]
        except (TypeError, ValueError):
            params = []
        for p in params:
            if p.kind == p.VAR_POSITIONAL:
                args.append(special.get(p.name, "x"))
            elif p.kind in (p.POSITIONAL_ONLY, p.POSITIONAL_OR_KEYWORD) and p.default is p.empty:
                args.append(special.get(p.name, 0))
        out.append(tuple(args))
    return out


# ------------------------------------------------------------------------------ one case

async def run_case(shared, case):
    """-> observation dict of the real facade for one case"""
    lmode, protos, reporters, events = case["listener"], case["protos"], case["reporters"], case["events"]
    env = Env(shared, lmode, [(t, list(k)) for t, k in protos], reporters)
    env.loop.set_exception_handler(lambda loop, context: env.loop_errors.append(type(context.get("exception")).__name__))
    env.hold = bool(case.get("hold"))
    await env.setup(case.get("connected0"))
    outs, problems = [], env.problems
    api_classes = []
    closes = []
    members = shared["table"]["members"]
    for pos, tok in enumerate(events):
        was = env.premise
        out = await env.do(tok)
        if tok == "u":
            closes.append((out, list(env.close_log), was))
        short = out.split(":")[0] if out.startswith("pass") else out
        outs.append(short)
        if out.startswith("pass:"):
            api_classes.append(out[5:])
        # ---- direct oracle, per event
        if tok[0] == "a" and was and short not in ("blocked", "gone"):
            name = members[int(tok[1:])]
            if name["kind"] != "closeExempt":
                problems.append(("api-not-blocked:%s.%s" % (name["iface"], name["name"]),
                                 "event %d: %s.%s did not raise BlockedStateError after close/loss (%s)" % (pos, name["iface"], name["name"], out)))
        if tok in ("s", "t") and was and short != "blocked":
            problems.append(("api-not-blocked:PushUpdater." + ("start" if tok == "s" else "stop"),
                             "event %d: push_updater.%s() did not raise BlockedStateError after close/loss" % (pos, "start" if tok == "s" else "stop")))
        if tok[0] == "p" and was and out == "d1":
            problems.append(("push-after-close", "event %d: a push update reached the user's PushListener after close/loss" % pos))
    await env.finish_connect()       # (generated histories complete connect() themselves: token `c`)
    # sweep: every public member of every object, when the premise holds
    bits = None
    if env.premise and case.get("sweep", True):
        bits = []
        for m, row in enumerate(members):
            if row["kind"] == "closeExempt":
                bits.append("0")
                continue
            r = await env.call_member(m)
            bits.append("?" if r == "gone" else "1" if r == "blocked" else "0")
            if r not in ("blocked", "gone"):
                problems.append(("api-not-blocked:%s.%s" % (row["iface"], row["name"]),
                                 "after the sequence %s.%s did not raise BlockedStateError (%s)" % (row["iface"], row["name"], r)))
        bits = "".join(bits)
    # what the user still holds: the interface objects obtained before the sequence (and whatever
    # a fresh fetch hands out afterwards); the device object itself is dropped and collected
    bits2 = None
    if case.get("drop") and env.atv is not None:
        env.refetch()
        outs.append(await env.do("x"))
        bits2 = []
        for m, row in enumerate(members):
            if row["obj"] == 0:
                bits2.append("?")
                continue
            results = [await env.call_member(m)]
            results += [await env.call_member(m, via=obj) for j, obj in env.extra_refs if j == row["obj"]]
            ok = all(r == "blocked" for r in results)
            bits2.append("1" if ok else "0")
            if env.premise and not ok:
                problems.append(("api-not-blocked-after-drop:%s.%s" % (row["iface"], row["name"]),
                                 "after close/loss the device object was dropped (collected: %s); %s.%s called through the %s "
                                 "reference obtained earlier did not raise BlockedStateError (%s)" % (
                                     env.device_collected, row["iface"], row["name"], row["iface"], results)))
        bits2 = "".join(bits2)
    # close() again: same pending tasks, nothing re-closed.  A close() may propagate the
    # exception of the user's own handler (userRaised) only when it is the call that does the
    # closing; a close() of an already closed/lost device must simply return.
    for out, _log, was in closes:
        if out == "raised":      # (userRaised: the user's own handler raised while a — possibly late — protocol was being closed)
            problems.append(("close-again:raised", "close() raised (%s): %s" % (out, env.escaped)))
            break
    # "returns the same pending tasks": the same task objects, judged when the sequence is over
    # (whether the *set object* is the same one is compared with the model, not demanded here)
    try:
        contents = [frozenset(r) for r in env.returned]
    except Exception:
        contents = []
    # "returns the same pending tasks": what close() handed out earlier is still in what it hands
    # out later — judged on the contents at each return, with the loop having run the tasks in
    # between.  The set may have GROWN: a protocol that finished connecting after the device was
    # closed is closed by the next close() and its tasks join the same set.  (Whether it is the
    # same set object is compared with the model, not demanded here.)
    # The tasks handed out earlier may meanwhile have completed, been cancelled by the caller, or
    # still be pending: close() must keep handing out the same ones.  Anything NEW in a later
    # result must be a task some protocol's close() returned (a protocol closed late), never a
    # replacement for something already handed out.
    snaps = [c for c in env.snapshots if c is not None]
    if any(not (a <= b) for a, b in zip(snaps, snaps[1:])):
        problems.append(("close-again:different-tasks", "a repeated close() no longer returned pending tasks that an earlier "
                         "close() had returned (they had meanwhile completed, been cancelled or were still pending): sizes %s"
                         % [len(c) for c in snaps]))
    elif any(not ((b - a) <= env.proto_tasks) for a, b in zip(snaps, snaps[1:])):
        problems.append(("close-again:new-task", "a repeated close() returned a task that neither an earlier close() had "
                         "returned nor a protocol closed late had created: sizes %s" % [len(c) for c in snaps]))
    if len(set(env.close_log)) != len(env.close_log):
        problems.append(("close-again:protocol-reclosed", "a protocol was closed more than once: close log %s" % env.close_log))
    # notifications
    if lmode != "d":
        if len(env.notified) > 1:
            problems.append(("notify:more-than-one", "the DeviceListener received %d notifications: %s" % (
                len(env.notified), [(env.reports[c][0], k) for c, k, _ in env.notified])))
        elif len(env.notified) == 1:
            cur, k, exc = env.notified[0]
            i0, kd0, exc0 = env.reports[0]
            if cur != 0 or k != kd0[0] or exc is not exc0:
                problems.append(("notify:not-first", "the DeviceListener received report #%s (%s) but the first one reported was %s by protocol %d" % (cur, k, kd0, i0)))
    notified = ["%d%s" % (env.reports[c][0], env.reports[c][1]) if c is not None else "?" for c, _k, _e in env.notified]
    calls_made, pend = env.snapshot()
    obs = {
        "outs": outs, "N": notified, "C": calls_made, "K": list(env.close_log), "B2": bits2, "collected": env.device_collected,
        "P": "-" if pend is None else "%d:%d" % (next((j for j, s in enumerate(env.sets) if s is pend), len(env.sets)), len(pend)),
        "B": bits, "R": 1 if env.escaped else 0, "I": list(env.inner_log), "escaped": env.escaped, "premise": env.premise,
        "problems": list(problems), "api_classes": api_classes, "session_closed": env.session.closed,
        "loop_errors": list(env.loop_errors),
    }
    # let the tasks created by close() finish
    env.task_gate.set()
    if pend:
        try:
            await asyncio.gather(*list(pend), return_exceptions=True)
        except Exception:
            pass
    return obs


def model_line(case):
    protos = ",".join("%d:%s" % (t, ".".join(k) if k else "-") for t, k in case["protos"])
    events = list(case["events"]) + (["x"] if case.get("drop") else [])
    line = "seq %s %s %s" % (case["listener"], protos, ",".join(events) or "-")
    return line + (" %d" % case["connected0"] if case.get("connected0") is not None else "")


def canon_impl(obs):
    csv = lambda xs: ",".join(str(x) for x in xs) if xs else "-"
    return "%s N=%s C=%d K=%s P=%s B=%s D=%s R=%d I=%s" % (csv(obs["outs"]), csv(obs["N"]), obs["C"], csv(obs["K"]), obs["P"],
                                                            obs["B"] if obs["B"] is not None else "*",
                                                            obs.get("B2") if obs.get("B2") is not None else "*", obs["R"], csv(obs["I"]))


def _mask(model_bits, impl_bits):
    """members the harness could not call (object no longer held) are not compared"""
    return "".join("?" if i == "?" else m for m, i in zip(model_bits, impl_bits))


def canon_model(ans, obs):
    parts = ans.split(" ")
    if len(parts) != 9:
        return ans
    outs, n, c, k, p, b, _s, r, i = parts
    bits = b[2:]
    b = "B=*" if obs["B"] is None else "B=" + _mask(bits, obs["B"])      # (None: not swept in this case)
    d = "D=*" if obs.get("B2") is None else "D=" + _mask(bits, obs["B2"])  # after the drop the flags are what they were
    return " ".join([outs, n, c, k, p, b, d, r, i])


# ------------------------------------------------------------------------------ generators

def with_probes(events, probes):
    """after every event: a push update from the main protocol and one API call"""
    out = []
    for j, e in enumerate(events):
        out.append(e)
        out.append("p0")
        out.append(probes[j % len(probes)])
    return out


def alphabet(n, api, beh):
    syms = []
    for i in range(n):
        syms += ["r%dc%s" % (i, beh), "r%dl%d%s" % (i, i + 1, beh)]
    return syms + ["u"] + list(api)


def exhaustive_cases(shared, ctx):
    idx = shared["index"]
    itop, iheld, ifeat = idx[("AppleTV", "remote_control")], idx[("RemoteControl", "play")], idx[("Features", "all_features")]
    top, held, feat = "a%d" % itop, "a%d" % iheld, "a%d" % ifeat
    probes = [held, top, feat]
    # what the user's DeviceListener handler does: returns / raises / uses the API and close() / both
    behs = ["", "!", "~a%d+a%d+u+a%d" % (itop, iheld, ifeat), "~a%d+u+a%d!" % (iheld, itop)]
    L5, L4 = ctx.scale(5, 6), ctx.scale(4, 5)
    plans = [
        # (n protocols, max length per behaviour, api + other symbols, [proto configs as kinds], listeners)
        (1, [L5, L4, L4, L4], [top, held], [[(1, ())], [(0, ("c",))], [(1, ("l0",))]], "a"),
        (1, [L5, 0, 0, 0], [top, held], [[(0, ("c",))]], "n"),
        (2, [L5, L4, L4, L4], [held], [[(1, ("c",)), (0, ("l0",))], [(0, ()), (1, ("c",))]], "a"),
        (2, [L4, 0, 0, 0], [top], [[(1, ("l0", "c")), (1, ())]], "n"),
        (3, [L5, L4, L4, L4], [], [[(1, ("c",)), (0, ()), (2, ("l0",))]], "a"),
        (3, [L4, 3, 3, 3], [top], [[(0, ()), (1, ("c",)), (1, ("c",))]], "a"),
        # the application assigns atv.listener again (None / same object / new object) at every position
        (1, [ctx.scale(4, 6), 3, 3, 3], ["L0", "L1", "L2"], [[(0, ("c",))]], "a"),
        (2, [L4, 3, 0, 0], [held, "L1", "L2"], [[(1, ("c",)), (0, ())]], "a"),
        (3, [L4, 0, 0, 0], ["L2", "L0"], [[(1, ("c",)), (0, ()), (2, ("l0",))]], "n"),
        # … and push_updater.listener
        (1, [L4, 0, 0, 0], [top, "M0", "M1", "M2"], [[(1, ())]], "a"),
    ]
    count = 0
    for n, maxlens, api, configs, listeners in plans:
        for beh, maxlen in zip(behs, maxlens):
            if beh and maxlen == 0:
                continue
            syms = alphabet(n, api, beh)
            for protos in configs:
                pcfg = [[t, [k + beh for k in kinds]] for t, kinds in protos]
                for lmode in listeners:
                    for length in range(0, maxlen + 1):
                        for seq in itertools.product(syms, repeat=length):
                            count += 1
                            yield {"listener": lmode, "protos": pcfg,
                                   "reporters": DEFAULT_REPORTERS[:n], "events": ["s"] + with_probes(seq, probes),
                                   "probe": 3, "sweep": length <= 3 or count % 5 == 0,
                                   "drop": length <= 2 or count % 10 == 0}
    # events DURING FacadeAppleTV.connect(): only the first protocol is registered when the history
    # starts, `c` lets the next one finish connecting; the history ends with the remaining ones
    # completing, the sweep follows.  And push_updater.start() calls that fail half-way (`sF`),
    # with no successful start() before.
    L4c, L3c = ctx.scale(4, 5), ctx.scale(3, 4)
    cplans = [
        (2, 1, L4c, ["r0c", "r0l1", "r1c", "u", "c", held], [(1, ("c",)), (1, ())], "a", True),
        (3, 1, L4c, ["r0l1", "r1c", "u", "c", top], [(1, ()), (0, ("c",)), (1, ("l0",))], "a", True),
        (2, 1, L4c, ["r0c", "u", "c", held], [(1, ()), (2, ("c~a%d+u!" % itop,))], "a", True),
        (3, 2, L3c, ["r0c", "r2l3", "u", "c", "L2"], [(1, ("c",)), (1, ()), (0, ())], "n", True),
        (2, 2, L4c, ["r0c", "r1l2", "u", "sF", "s", "t"], [(1, ()), (0, ("c",))], "a", False),
        (2, 1, L3c, ["r0l1", "u", "sF", "c", "t"], [(1, ()), (1, ())], "a", False),
    ]
    # what becomes of the tasks close() hands out: they stay pending (hold) and the caller cancels them (`K`)
    kplans = [
        (1, 1, ctx.scale(5, 6), ["r0c", "u", "K", held], [(1, ())], "a"),
        (2, 1, ctx.scale(4, 5), ["r0l1", "u", "K", "c", top], [(1, ("c",)), (2, ("l0",))], "a"),
        (2, 2, ctx.scale(4, 5), ["r1c", "u", "K"], [(0, ()), (1, ("c",))], "n"),
    ]
    for n, c0, maxlen, syms, protos, lmode in kplans:
        pcfg = [[t, list(kinds)] for t, kinds in protos]
        for hold in (True, False):
            for length in range(0, maxlen + 1):
                for seq in itertools.product(syms, repeat=length):
                    count += 1
                    tail = ["c"] * max(0, n - c0 - sum(1 for e in seq if e == "c")) + ["u", "K", "u"]
                    yield {"listener": lmode, "protos": pcfg, "reporters": DEFAULT_REPORTERS[:n], "connected0": c0,
                           "hold": hold, "events": list(seq) + tail, "probe": False,
                           "sweep": count % 3 == 0, "drop": count % 6 == 0}
    for n, c0, maxlen, syms, protos, lmode, started in cplans:
        pcfg = [[t, list(kinds)] for t, kinds in protos]
        for length in range(0, maxlen + 1):
            for seq in itertools.product(syms, repeat=length):
                count += 1
                body = with_probes(seq, probes)
                tail = ["c"] * max(0, n - c0 - sum(1 for e in seq if e == "c")) + ["p0", held]
                yield {"listener": lmode, "protos": pcfg, "reporters": DEFAULT_REPORTERS[:n], "connected0": c0,
                       "events": (["s"] if started else []) + body + tail, "probe": 3, "off": 1 if started else 0,
                       "upto": (1 if started else 0) + len(body), "sweep": length <= 3 or count % 2 == 0,
                       "drop": count % 4 == 0}


def random_beh(rng, nmem, members):
    x = rng.random()
    if x < 0.45:
        return ""
    inner = []
    if x < 0.85:
        for _ in range(rng.randint(1, 3)):
            if rng.random() < 0.3:
                inner.append("u")
            else:
                m = rng.randrange(nmem)
                inner.append("u" if members[m]["kind"] == "closeExempt" else "a%d" % m)
    raises = rng.random() < 0.4 or not inner
    return ("~" + "+".join(inner) if inner else "") + ("!" if raises else "")


def random_cases(shared, ctx, count):
    rng = ctx.rng.fork("sampled")
    members = shared["table"]["members"]
    nmem = len(members)
    for _ in range(count):
        n = rng.randint(1, 3)
        protos = []
        for _i in range(n):
            kinds = [rng.choice(["c", "l%d" % rng.randrange(N_EXC)]) + random_beh(rng, nmem, members)
                     for _ in range(rng.choice([0, 0, 1, 1, 2]))]
            protos.append([rng.randint(0, 2), kinds])
        reporters = [rng.choice(["mrp", "direct", "companion", "airplay"]) for _ in range(n)]
        length = rng.randint(3, ctx.scale(8, 12))
        events = []
        for _j in range(length):
            x = rng.random()
            if x < 0.30:
                events.append("r%d%s%s" % (rng.randrange(n), rng.choice(["c", "l%d" % rng.randrange(N_EXC)]), random_beh(rng, nmem, members)))
            elif x < 0.45:
                events.append("u")
            elif x < 0.72:
                m = rng.randrange(nmem)
                if members[m]["kind"] == "closeExempt":
                    events.append("u")
                else:
                    events.append("a%d" % m)
            elif x < 0.80:
                events.append(rng.choice(["s", "s", "t"]))
            elif x < 0.88:
                events.append(rng.choice(["L0", "L1", "L1", "L2", "L2", "M0", "M1", "M2"]))
            else:
                events.append("p%d%s" % (rng.randrange(n), random_beh(rng, nmem, members)))
        lmode = rng.choice(["a", "a", "a", "n", "d"])
        case = {"listener": lmode, "protos": protos, "reporters": reporters, "events": events, "probe": False,
                "drop": rng.random() < 0.5}
        if n > 1 and rng.random() < 0.35:
            # part of the history happens while connect() is still awaiting the later protocols
            c0 = rng.randint(1, n - 1)
            for _c in range(n - c0):
                events.insert(rng.randint(0, len(events)), "c")
            case["connected0"] = c0
        if rng.random() < 0.2:
            events.insert(rng.randint(0, len(events)), "sF")
        if rng.random() < 0.4:
            case["hold"] = rng.random() < 0.7
            for _k in range(rng.randint(1, 2)):
                events.insert(rng.randint(0, len(events)), "K")
        yield case


# ------------------------------------------------------------------------------ run

def make_shared():
    from pyatv import conf
    from pyatv.const import Protocol
    from pyatv.settings import Settings
    from tools.gen import c09 as gen

    table = gen.table()
    config = conf.AppleTV("127.0.0.1", "verif")
    config.add_service(conf.ManualService("id", Protocol.MRP, 0, {}))
    shared = {"table": table, "config": config, "n": 0,
              "excs": [RuntimeError("lost-%d" % i) for i in range(N_EXC)],
              "index": {(r["iface"], r["name"]): i for i, r in enumerate(table["members"])}}
    shared["args"] = dummy_args(table)
    shared["classes"] = make_classes()
    shared["settings"] = Settings()
    return shared


ALLOWED_OPEN = {"AppleTV", "RemoteControl", "Features", "Metadata", "Apps", "UserAccounts", "Keyboard", "TouchGestures", "Power", "Audio"}


def safe_before_close(shared, case):
    """API calls made while the device is still open go to the dummy protocols; only let
    through the ones that cannot do anything but relay (the sampled generator may pick any
    member, so anything that is not a plain relay is replaced before the first close/report;
    PushUpdater.start/stop have an effect the model tracks as its own events)."""
    table = shared["table"]["members"]
    play = "a%d" % shared["index"][("RemoteControl", "play")]
    state = {"seen": False}

    def fix_member(tok, top_level):
        row = table[int(tok[1:])]
        if row["iface"] == "PushUpdater" and row["name"] in ("start", "stop"):
            return ("s" if row["name"] == "start" else "t") if top_level else play
        if not state["seen"] and (row["iface"] not in ALLOWED_OPEN or row["name"] in ("connect",)):
            return play
        return tok

    def fix_beh(tok):
        head, inner, raises = split_beh(tok)
        inner = [t if t == "u" else fix_member(t, False) for t in inner]
        return head + ("~" + "+".join(inner) if inner else "") + ("!" if raises else "")

    events = []
    for tok in case["events"]:
        if tok[0] == "a":
            tok = fix_member(tok, True)
        elif tok[0] in "rp":
            tok = fix_beh(tok)     # inner calls may run while the device is open (dead listener, push handlers)
        if tok == "u" or (tok[0] == "r" and case["listener"] != "d"):
            state["seen"] = True   # (a report does not close the device when the listener was collected)
        events.append(tok)
    state["seen"] = False          # reports emitted by close(): the device may still be open for a dead listener
    protos = [[t, [fix_beh(k) for k in kinds]] for t, kinds in case["protos"]]
    return dict(case, events=events, protos=protos)


_WORKER = {}


def _worker_init(repo):
    import sys
    import warnings

    if repo and repo not in sys.path[:1]:
        sys.path.insert(0, repo)
    warnings.showwarning = lambda *a, **k: None
    _WORKER["shared"] = make_shared()


def _worker_run(cases):
    shared = _WORKER["shared"]
    return _run_cases(shared, cases)


def _run_cases(shared, cases):
    loop = asyncio.new_event_loop()
    asyncio.set_event_loop(loop)
    results = []
    try:
        for case in cases:
            try:
                obs = loop.run_until_complete(run_case(shared, case))
            except (Exception, asyncio.CancelledError) as ex:  # the harness must survive changed code
                obs = {"outs": ["harness-exception:" + type(ex).__name__ + ":" + str(ex)[:80]], "N": [], "C": -1, "K": [], "P": "?",
                       "B": None, "B2": None, "collected": None, "R": 1, "I": [], "escaped": [], "premise": False, "problems": [],
                       "api_classes": [], "session_closed": 0, "loop_errors": []}
            results.append(obs)
    finally:
        try:
            pending = [t for t in asyncio.all_tasks(loop) if not t.done()]
            for t in pending:
                t.cancel()
            if pending:
                loop.run_until_complete(asyncio.gather(*pending, return_exceptions=True))
        except Exception:
            pass
        asyncio.set_event_loop(None)
        loop.close()
    return results


def evaluate(ctx, shared, cases, judge=True, chunk=40000):
    """chunked so that a thorough run never holds more than `chunk` cases in memory"""
    it = iter(cases)
    while True:
        part = list(itertools.islice(it, chunk))
        if not part:
            return
        _evaluate(ctx, shared, part, judge)


def _evaluate(ctx, shared, cases, judge=True):
    import threading
    import warnings

    box = {}
    lines = [model_line(c) for c in cases]

    def ask(key, part):
        try:
            box[key] = ctx.lean(part)
        except BaseException as ex:  # re-raised in the caller's thread
            box["error"] = ex

    half = len(lines) // 2 if len(lines) > 2000 else len(lines)
    threads = [threading.Thread(target=ask, args=("a", lines[:half]))]
    if half < len(lines):
        threads.append(threading.Thread(target=ask, args=("b", lines[half:])))
    for th in threads:
        th.start()
    saved_show = warnings.showwarning
    warnings.showwarning = lambda *a, **k: None      # pyatv's `deprecated` wrapper warns on every call
    try:
        pool = shared.get("pool")
        if pool is not None and len(cases) > 600:
            step = 300
            parts = [cases[i:i + step] for i in range(0, len(cases), step)]
            observations = [o for part in pool.imap(_worker_run, parts) for o in part]
        else:
            observations = _run_cases(shared, cases)
    finally:
        warnings.showwarning = saved_show
        for th in threads:
            th.join()
    if "error" in box:
        raise box["error"]
    answers = box.get("a", []) + box.get("b", [])
    for case, obs, ans in zip(cases, observations, answers):
        events = case["events"]
        core = events[case.get("off", 1):case.get("upto")][::case["probe"]] if case.get("probe") else events
        first = next((j for j, e in enumerate(core) if e[0] in "ru"), None)
        reentrant = any("~" in e for e in core) or any("~" in k for _t, ks in case["protos"] for k in ks)
        nontrivial = first is not None and (first < len(core) - 1 or reentrant)
        ctx.case([case["listener"], case["protos"], case["reporters"], events, bool(case.get("drop"))], nontrivial,
                 sample={"listener": case["listener"], "protos": case["protos"], "events": core, "notified": obs["N"],
                         "outs": obs["outs"][:12], "inside_callbacks": obs["I"][:6]})
        ctx.note("protocols:%d" % len(case["protos"]))
        ctx.note("listener:" + case["listener"])
        ctx.note("len:%d" % len(core))
        for e in core:
            ctx.note("ev:" + ("report" if e[0] == "r" else "close" if e == "u" else "api" if e[0] == "a" else
                              "connect-next" if e == "c" else "tasks-cancelled" if e == "K" else "push-start-fault" if e == "sF" else
                              "set-listener" if e[0] == "L" else "set-push-listener" if e[0] == "M" else "push"))
            if e[0] in "rp":
                ctx.note("handler:" + ("raises+reenters" if ("!" in e and "~" in e) else "raises" if "!" in e else "reenters" if "~" in e else "returns"))
        ctx.note("notifications:%d" % len(obs["N"]))
        ctx.note("calls-inside-callbacks", len(obs["I"]))
        if "userRaised" in obs["outs"]:
            ctx.note("close-propagated-user-exception")
        if "escaped" in obs["outs"]:
            ctx.note("report-propagated-user-exception")
        if obs["B"] is not None:
            ctx.note("swept-after-close")
        if obs.get("B2") is not None:
            ctx.note("device-dropped:" + ("collected" if obs.get("collected") else "still-referenced"))
            if obs["premise"]:
                ctx.note("swept-held-interfaces-after-drop")
        for c in obs["api_classes"]:
            ctx.note("open-api-result:" + c)
        impl, model = canon_impl(obs), canon_model(ans, obs)
        if impl != model:
            ctx.disagree({k: case[k] for k in ("listener", "protos", "reporters", "events", "drop", "connected0", "hold") if k in case}, impl, model, where="facade life cycle")
        ctx.validated()
        if case["listener"] == "d":
            ctx.note("observation:gc-listener-runs")
            if obs["premise"] and obs["B"] is not None and obs["B"].count("0") > 1:
                ctx.note("observation:gc-listener-device-not-blocked-after-report")
            continue
        if judge:
            for sig, what in obs["problems"]:
                ctx.fail(sig, {k: case[k] for k in ("listener", "protos", "reporters", "events", "drop", "connected0", "hold") if k in case},
                         {"outs": obs["outs"], "notified": obs["N"], "close_log": obs["K"], "pending": obs["P"], "inside_callbacks": obs["I"]},
                         "property C09 (blocked after close/loss — inside the notification callback too and whether or not it "
                         "raises —, close() idempotent, pushes stop, at most one notification: the first)", what)


def handshake(ctx, shared):
    t = shared["table"]
    ans = ctx.lean(["table"])[0]
    mine = "%d %d %d %d" % (len(t["members"]), len(t["objects"]), t["push_obj"], t["max_calls"])
    if ans != mine:
        ctx.disagree({"op": "table"}, mine, ans, where="generated member table")
    ctx.validated()
    for row in t["members"]:
        ctx.note("member-kind:" + row["kind"])


def table_witnesses(shared):
    """Tie A replay: a member the table does not show as protected is called after close."""
    t = shared["table"]
    by_index = {i: r for i, r in enumerate(t["members"])}
    bad = []
    for i, r in by_index.items():
        if r["kind"] == "unguarded":
            bad.append(i)
        elif r["kind"] == "derived" and not all(by_index[j]["kind"] == "guarded" for j in r["via"]):
            bad.append(i)
    cases = []
    for m in bad:
        cases.append({"listener": "a", "protos": [[1, []]], "reporters": ["direct"], "events": ["u", "a%d" % m], "probe": False})
        cases.append({"listener": "a", "protos": [[1, []]], "reporters": ["direct"], "events": ["r0c", "a%d" % m], "probe": False})
    return cases


def fixed_cases(shared):
    """regression shapes: loss during teardown, close during loss, all reporters, user code inside callbacks"""
    idx = shared["index"]
    top, held = "a%d" % idx[("AppleTV", "remote_control")], "a%d" % idx[("RemoteControl", "play")]
    info = "a%d" % idx[("AppleTV", "device_info")]
    reent = "~%s+%s+u+%s" % (top, held, info)
    fixed = []
    for reps in (["mrp", "direct", "companion"], ["airplay", "companion", "mrp"], ["direct", "airplay", "direct"]):
        for lmode in "and":
            fixed.append({"listener": lmode, "protos": [[1, ["c"]], [0, ["l1"]], [2, ["c", "l2"]]], "reporters": reps,
                          "events": ["s", "p0", "r1l3", "p0", "u", "r0c", "u", "r2l0", "p0", "s"], "probe": False})
            fixed.append({"listener": lmode, "protos": [[1, ["c"]], [0, ["l1"]], [2, []]], "reporters": reps,
                          "events": ["s", "p0", "u", "u", "r2l3", "p0", "t"], "probe": False})
            for beh in ("!", reent, reent + "!"):
                for i in range(3):
                    for kind in ("c", "l2"):
                        # a protocol reports; the user's handler raises / uses the API / closes from inside
                        fixed.append({"listener": lmode, "protos": [[1, []], [0, []], [2, []]], "reporters": reps,
                                      "events": ["s", "p0", "r%d%s%s" % (i, kind, beh), top, held, "p0", "u", "u", "r0c" + beh, held], "probe": False})
                # the user closes; protocol 1 reports while being closed; the handler raises / re-enters
                fixed.append({"listener": lmode, "protos": [[1, []], [1, ["c" + beh]], [2, ["l1" + beh]]], "reporters": reps,
                              "events": ["s", "p0", "u", top, held, "p0", "u", "r2l0" + beh, "u", held], "probe": False})
            # the PushListener handler closes the device / raises from inside a push callback
            fixed.append({"listener": lmode, "protos": [[1, ["c" + reent]], [0, []]], "reporters": reps[:2],
                          "events": ["s", "p0~%s+u+%s+u!" % (held, held), "p0", top, "u", "p0!", "r1l1"], "probe": False})
    for lmode in "an":
        # loss / close while connect() is still awaiting protocol 1 (and 2); connect() then completes
        for ev in ("r0l1", "r0c", "u", "r1c"):
            fixed.append({"listener": lmode, "protos": [[1, ["c"]], [1, ["l1"]], [2, ["c~%s+u" % top]]], "reporters": DEFAULT_REPORTERS,
                          "connected0": 1, "events": ["s", "p0", ev, top, "c", held, "p0", "c", top, held, "p0", "u", "u"], "probe": False})
        # push_updater.start() fails in the second protocol's updater; then close / loss; then pushes
        for ev in ("u", "r1l2", "r0c"):
            fixed.append({"listener": lmode, "protos": [[1, []], [1, []]], "reporters": DEFAULT_REPORTERS[:2],
                          "events": ["sF", "p0", ev, "p0", "p1", "sF", "u", "p0"], "probe": False})
        # close(); the returned tasks complete; close() again
        fixed.append({"listener": lmode, "protos": [[2, []], [1, ["c"]]], "reporters": DEFAULT_REPORTERS[:2],
                      "events": ["u", "p0", "u", "r0c", "u"], "probe": False})
    for lmode in "an":
        for hold in (True, False):
            # close (or loss, then close); the caller cancels the tasks / they stay pending; close again
            for first in (["u"], ["r0l1", "u"], ["r1c"]):
                fixed.append({"listener": lmode, "protos": [[1, []], [2, ["c"]]], "reporters": DEFAULT_REPORTERS[:2], "hold": hold,
                              "events": first + ["K", "u", "u", "K", "u"], "probe": False})
            fixed.append({"listener": lmode, "protos": [[1, []], [2, ["c"]]], "reporters": DEFAULT_REPORTERS[:2], "hold": hold,
                          "connected0": 1, "events": ["u", "K", "c", "u", "K", "u"], "probe": False})
    # every shape again with the device object dropped at the end (interface references retained)
    return fixed + [dict(c, drop=True) for c in fixed]


def run(ctx, only=None):
    shared = make_shared()
    if only is not None:
        evaluate(ctx, shared, only)
        return
    handshake(ctx, shared)
    if shared["table"]["max_calls"] != 1:
        ctx.note("max_calls:%s" % shared["table"]["max_calls"])
    evaluate(ctx, shared, table_witnesses(shared))
    evaluate(ctx, shared, fixed_cases(shared))
    pool = None
    try:
        try:
            import multiprocessing
            import sys

            pool = multiprocessing.get_context("fork").Pool(ctx.scale(4, 4), _worker_init, (sys.path[0],))
            shared["pool"] = pool
        except Exception:
            pool = None
        if not ctx.widened:
            evaluate(ctx, shared, exhaustive_cases(shared, ctx))
            ctx.exhaustive = True
        n = ctx.scale(2500, 60000)
        evaluate(ctx, shared, (safe_before_close(shared, c) for c in random_cases(shared, ctx, n)))
    finally:
        shared.pop("pool", None)
        if pool is not None:
            pool.terminate()
            pool.join()


def widen(ctx):
    run(ctx)


def replay(ctx, failure):
    c2 = type(ctx)(ctx.prop, ctx.tier, ctx.seed, ctx.driver.driver_rel)
    case = dict(failure["case"], probe=False)
    run(c2, only=[case])
    return bool(c2.failures)


def shrink(ctx, failure):
    """drop events one at a time while the same oracle failure persists"""
    shared = make_shared()
    case = dict(failure["case"], probe=False)
    sig = failure["sig"]

    def fails(c):
        c2 = type(ctx)(ctx.prop, ctx.tier, ctx.seed, ctx.driver.driver_rel)
        c2.lean = lambda lines, driver=None: ["-"] * len(list(lines))
        evaluate(c2, shared, [c])
        return next((f for f in c2.failures if f["sig"] == sig), None)

    best = failure
    changed = True
    while changed:
        changed = False
        for j in range(len(case["events"])):
            trial = dict(case, events=case["events"][:j] + case["events"][j + 1:])
            f = fails(trial)
            if f:
                case, best, changed = trial, f, True
                break
    return best
