"""C09 — correspondence + direct oracle: closing or losing a connection is final and
reported once.

Real code driven: `pyatv.core.facade.FacadeAppleTV` (constructed exactly as
`pyatv.connect` does, the facade itself being the `device_listener` StateProducer) with
1..3 dummy protocols registered through real `SetupData` (connect/close callables, an
interfaces map with a RemoteControl, a Features and a real `AbstractPushUpdater`
subclass, features), a user `DeviceListener` and a user `PushListener` that record what
they receive.  Reports reach the facade the way the protocols make them:
`device_listener.listener.connection_lost(exc)` / `.connection_closed()`, either directly
(DMAP's `_close`) or through the real `MrpConnection.connection_lost`,
`CompanionConnection.connection_lost`, `AirPlayMrpConnection.handle_connection_lost`.
A protocol's `close()` emits a configurable list of reports re-entrantly and returns a
set of real tasks.

Event tokens (shared with the Lean driver, see lean/PyatvModel/C09/Driver.lean):
  r<i>c | r<i>l<e>  protocol i reports closed | lost(exception e);  u  atv.close();
  a<m>  public member m of the generated table, on the object the user holds;
  s | t  push_updater.start()/stop();  p<i>  protocol i's push updater posts an update.
"""
import asyncio
import gc
import inspect
import itertools

RULE = ("event sequences over {protocol i reports lost(exc)|closed, user close(), public API call on the top "
        "object / on a held interface object} for 1..3 protocols x close()-time report configurations x listener "
        "set/unset: exhaustive up to a tier-dependent length (a push-update probe follows every event), then longer "
        "sequences sampled from ctx.rng, each followed by a sweep over every public member of every facade object; "
        "non-trivial = the device gets closed or reported lost AND something happens afterwards (another report, a "
        "second close(), an API call); distinct = (listener, protocol configs, reporters, event list)")
ASSUMPTIONS = [
    "the user keeps a strong reference to the DeviceListener it registered (a listener that was set and then "
    "garbage-collected is outside the property's quantifier: such runs are compared with the model and recorded, not judged)",
    "the DeviceListener implements both methods of pyatv.interface.DeviceListener",
    "Features.in_state(states) with no feature names (a query that touches nothing) is not counted as a call on the device",
    "reports are delivered at event granularity: a report is the evaluation of device_listener.listener.<method>, as in the protocols",
]
TRUSTED = ["the dummy protocols, session manager and recording listeners of harness/c09.py",
           "tools/gen/c09.py introspection of shield.guard wrappers (cross-checked each run by calling every member after close)"]

PROTOCOL_ORDER = ["MRP", "DMAP", "Companion"]          # decreasing facade priority: protocol 0 is the main instance
DEFAULT_REPORTERS = ["mrp", "direct", "companion"]
N_EXC = 4


# ------------------------------------------------------------------------------ fakes

class _Session:
    def __init__(self):
        self.closed = 0

    async def close(self):
        self.closed += 1


async def _noop():
    return None


def make_classes():
    from pyatv import interface
    from pyatv.const import FeatureState
    from pyatv.core import AbstractPushUpdater

    class Recorder(interface.DeviceListener):
        def __init__(self, env):
            self.env = env

        def connection_lost(self, exception):
            self.env.notified.append((self.env.current, "l", exception))

        def connection_closed(self):
            self.env.notified.append((self.env.current, "c", None))

    class PushRecorder(interface.PushListener):
        def __init__(self, env):
            self.env = env

        def playstatus_update(self, updater, playstatus):
            self.env.pushed += 1

        def playstatus_error(self, updater, exception):
            self.env.push_errors += 1

    class DummyRC(interface.RemoteControl):
        def __init__(self, env):
            self.env = env

        async def play(self):
            self.env.rc_calls += 1

    class DummyFeatures(interface.Features):
        def get_feature(self, feature_name):
            return interface.FeatureInfo(FeatureState.Available)

    class DummyPush(AbstractPushUpdater):
        def __init__(self, sd):
            super().__init__(sd)
            self._active = False

        @property
        def active(self):
            return self._active

        def start(self, initial_delay=0):
            self._active = True

        def stop(self):
            self._active = False

    return Recorder, PushRecorder, DummyRC, DummyFeatures, DummyPush


class Env:
    """One device object with its protocols, listeners and logs."""

    def __init__(self, shared, lmode, protos, reporters):
        from pyatv import interface
        from pyatv.const import FeatureName, FeatureState, Protocol
        from pyatv.core import AbstractPushUpdater, CoreStateDispatcher, ProtocolStateDispatcher, SetupData
        from pyatv.core.facade import FacadeAppleTV
        from pyatv.settings import Settings

        env = self
        self.shared = shared
        self.loop = asyncio.get_event_loop()
        self.session = _Session()
        self.dispatcher = CoreStateDispatcher()
        self.atv = FacadeAppleTV(shared["config"], self.session, self.dispatcher, shared["settings"])
        self.reports = []          # (i, kind, exc) in emission order
        self.current = None
        self.notified = []         # what the user's DeviceListener received
        self.close_log = []
        self.pushed = 0
        self.push_errors = 0
        self.escaped = []          # exceptions that escaped from close()/a report
        self.sets = []             # distinct objects returned by close(), strong refs
        self.last_returned = None
        self.excs = shared["excs"]
        self.rc_calls = 0

        Recorder, PushRecorder, DummyRC, DummyFeatures, DummyPush = shared["classes"]

        self.pushers = []
        self.reporter_objs = []
        for i, (tasks, kinds) in enumerate(protos):
            proto = getattr(Protocol, PROTOCOL_ORDER[i])
            pusher = DummyPush(ProtocolStateDispatcher(proto, self.dispatcher))
            self.pushers.append(pusher)
            self.reporter_objs.append(self._make_reporter(reporters[i]))

            def make(i, tasks, kinds):
                async def connect():
                    return True

                def close():
                    env.close_log.append(i)
                    for kd in kinds:
                        env.report(i, kd)
                    return {asyncio.ensure_future(_noop()) for _ in range(tasks)}

                return connect, close

            connect, close = make(i, tasks, kinds)
            self.atv.add_protocol(SetupData(
                proto, connect, close, lambda: {},
                {interface.RemoteControl: DummyRC(env), interface.Features: DummyFeatures(),
                 interface.PushUpdater: pusher},
                {FeatureName.Play},
            ))
        self.lmode = lmode
        self.listener_obj = None
        self.push_listener = PushRecorder(env)
        self._Recorder = Recorder

    def _make_reporter(self, kind):
        atv = self.atv
        if kind == "mrp":
            from pyatv.protocols.mrp.connection import MrpConnection
            conn = MrpConnection("127.0.0.1", 0, self.loop, atv=atv)
            return lambda exc: conn.connection_lost(exc)
        if kind == "companion":
            from pyatv.protocols.companion.connection import CompanionConnection
            conn = CompanionConnection(self.loop, "127.0.0.1", 0, device_listener=atv)
            return lambda exc: conn.connection_lost(exc)
        if kind == "airplay":
            from pyatv.protocols.airplay.mrp_connection import AirPlayMrpConnection
            conn = AirPlayMrpConnection(None, atv)
            return lambda exc: conn.connection_lost(exc)

        def direct(exc):
            # pyatv/protocols/dmap/__init__.py:693 / :513
            if exc is None:
                atv.listener.connection_closed()
            else:
                atv.listener.connection_lost(exc)
        return direct

    async def setup(self):
        await self.atv.connect()
        atv = self.atv
        # the objects a user may hold on to: index = shielded-object number of the table
        names = self.shared["table"]["objects"]
        self.held = [atv] + [atv._interfaces[k] for k in atv._interfaces]
        assert len(self.held) == len(names)
        self.held_pu = atv.push_updater
        self.held_pu.listener = self.push_listener
        if self.lmode in ("a", "d"):
            self.listener_obj = self._Recorder(self)
            atv.listener = self.listener_obj
            if self.lmode == "d":
                import weakref
                probe = weakref.ref(self.listener_obj)
                self.listener_obj = None
                if probe() is not None:      # CPython frees it by reference count; be safe elsewhere
                    gc.collect()

    # -- events -------------------------------------------------------------------------
    def report(self, i, kd):
        exc = None if kd == "c" else self.excs[int(kd[1:])]
        self.reports.append((i, kd, exc))
        prev, self.current = self.current, len(self.reports) - 1
        try:
            self.reporter_objs[i](exc)
        finally:
            self.current = prev

    async def do(self, tok):
        from pyatv.exceptions import BlockedStateError
        from pyatv.interface import Playing

        if tok[0] == "r":
            try:
                self.report(int(tok[1]), tok[2:])
            except Exception as ex:  # observation
                self.escaped.append(type(ex).__name__)
            return "-"
        if tok == "u":
            try:
                ret = self.atv.close()
            except Exception as ex:
                self.escaped.append(type(ex).__name__)
                return "raised"
            try:
                self.last_returned = frozenset(ret)
            except Exception:
                self.last_returned = None
            idx = next((j for j, s in enumerate(self.sets) if s is ret), None)
            if idx is None:
                self.sets.append(ret)
                idx = len(self.sets) - 1
            try:
                n = len(ret)
            except Exception:
                n = -1
            return "set%d:%d" % (idx, n)
        if tok[0] == "a":
            return await self.call_member(int(tok[1:]))
        if tok in ("s", "t"):
            try:
                (self.held_pu.start if tok == "s" else self.held_pu.stop)()
            except BlockedStateError:
                return "blocked"
            except Exception as ex:
                return "pass:" + type(ex).__name__
            return "pass"
        if tok[0] == "p":
            before = self.pushed
            self.shared["n"] += 1
            try:
                self.pushers[int(tok[1:])].post_update(Playing(title="t%d" % self.shared["n"]))
            except Exception as ex:
                self.escaped.append("push:" + type(ex).__name__)
            await asyncio.sleep(0)
            return "d1" if self.pushed > before else "d0"
        raise ValueError(tok)

    async def call_member(self, m):
        """-> 'blocked' | 'pass' | 'pass:<ExceptionClass>'"""
        from pyatv.exceptions import BlockedStateError

        row = self.shared["table"]["members"][m]
        obj = self.held[row["obj"]]
        try:
            if row["is_property"]:
                getattr(obj, row["name"])
            else:
                fn = getattr(obj, row["name"])
                res = fn(*self.shared["args"][m])
                if inspect.isawaitable(res):
                    res = await res
                if row["name"] == "close" and row["obj"] == 0:
                    return "pass"
        except BlockedStateError:
            return "blocked"
        except Exception as ex:
            return "pass:" + type(ex).__name__
        return "pass"


def dummy_args(table):
    """one argument list per member (only evaluated when a guard lets the call through)"""
    from pyatv.const import FeatureName, FeatureState
    from pyatv.core.facade import FacadeAppleTV  # noqa
    from tools.gen import c09 as gen

    atv = gen.build_facade()
    held = [atv] + [atv._interfaces[k] for k in atv._interfaces]
    special = {"feature_name": FeatureName.Play, "states": FeatureState.Available, "feature_names": FeatureName.Play}
    out = []
    for row in table["members"]:
        if row["is_property"]:
            out.append(())
            continue
        fn = getattr(type(held[row["obj"]]), row["name"])
        args = []
        try:
            params = list(inspect.signature(fn).parameters.values())[1:]
        except (TypeError, ValueError):
            params = []
        for p in params:
            if p.kind == p.VAR_POSITIONAL:
                args.append(special.get(p.name, "x"))
            elif p.kind in (p.POSITIONAL_ONLY, p.POSITIONAL_OR_KEYWORD) and p.default is p.empty:
                args.append(special.get(p.name, 0))
        out.append(tuple(args))
    return out


# ------------------------------------------------------------------------------ one case

async def run_case(shared, case):
    """-> observation dict of the real facade for one case"""
    lmode, protos, reporters, events = case["listener"], case["protos"], case["reporters"], case["events"]
    env = Env(shared, lmode, [(t, list(k)) for t, k in protos], reporters)
    await env.setup()
    outs, problems = [], []
    premise = False           # closed by the user, or some protocol reported
    api_classes = []
    closes = []
    for pos, tok in enumerate(events):
        was = premise
        nrep = len(env.reports)
        out = await env.do(tok)
        if tok == "u":
            premise = True
            closes.append((out, list(env.close_log), env.last_returned))
        if len(env.reports) > nrep and tok[0] == "r":
            premise = True
        short = out.split(":")[0] if out.startswith("pass") else out
        outs.append(short)
        if out.startswith("pass:"):
            api_classes.append(out[5:])
        # ---- direct oracle, per event
        if tok[0] == "a" and was and short != "blocked":
            name = shared["table"]["members"][int(tok[1:])]
            if name["kind"] != "closeExempt":
                problems.append(("api-not-blocked:%s.%s" % (name["iface"], name["name"]),
                                 "event %d: %s.%s did not raise BlockedStateError after close/loss (%s)" % (pos, name["iface"], name["name"], out)))
        if tok in ("s", "t") and was and short != "blocked":
            problems.append(("api-not-blocked:PushUpdater." + ("start" if tok == "s" else "stop"),
                             "event %d: push_updater.%s() did not raise BlockedStateError after close/loss" % (pos, "start" if tok == "s" else "stop")))
        if tok[0] == "p" and was and out == "d1":
            problems.append(("push-after-close", "event %d: a push update reached the user's PushListener after close/loss" % pos))
    # sweep: every public member of every object, when the premise holds
    bits = None
    if premise and case.get("sweep", True):
        bits = []
        for m, row in enumerate(shared["table"]["members"]):
            if row["kind"] == "closeExempt":
                bits.append("0")
                continue
            r = await env.call_member(m)
            bits.append("1" if r == "blocked" else "0")
            if r != "blocked":
                problems.append(("api-not-blocked:%s.%s" % (row["iface"], row["name"]),
                                 "after the sequence %s.%s did not raise BlockedStateError (%s)" % (row["iface"], row["name"], r)))
        bits = "".join(bits)
    # close() again: same set, nothing re-closed
    if closes:
        if any(o == "raised" for o, _, _ in closes):
            problems.append(("close-again:raised", "close() raised: %s" % env.escaped))
        # "returns the same pending tasks": the same task objects (whether the *set object* is
        # the same one is compared with the model, not demanded here)
        contents = [c for o, _, c in closes if o != "raised" and c is not None]
        if any(c != contents[0] for c in contents[1:]):
            problems.append(("close-again:different-tasks", "repeated close() returned different pending tasks: %s" % [o for o, _, _ in closes]))
        first_log = closes[0][1]
        if any(log != first_log for _, log, _ in closes[1:]) or len(set(env.close_log)) != len(env.close_log):
            problems.append(("close-again:protocol-reclosed", "a protocol was closed more than once: close log %s" % env.close_log))
    # notifications
    if lmode != "d":
        if len(env.notified) > 1:
            problems.append(("notify:more-than-one", "the DeviceListener received %d notifications: %s" % (
                len(env.notified), [(env.reports[c][0], k) for c, k, _ in env.notified])))
        elif len(env.notified) == 1:
            cur, k, exc = env.notified[0]
            i0, kd0, exc0 = env.reports[0]
            if cur != 0 or k != kd0[0] or exc is not exc0:
                problems.append(("notify:not-first", "the DeviceListener received report #%s (%s) but the first one reported was %s by protocol %d" % (cur, k, kd0, i0)))
    notified = ["%d%s" % (env.reports[c][0], env.reports[c][1]) if c is not None else "?" for c, _k, _e in env.notified]
    pend = env.atv._pending_tasks
    obs = {
        "outs": outs, "N": notified, "C": env.atv.calls_made, "K": list(env.close_log),
        "P": "-" if pend is None else "%d:%d" % (next((j for j, s in enumerate(env.sets) if s is pend), len(env.sets)), len(pend)),
        "B": bits, "R": 1 if env.escaped else 0, "escaped": env.escaped, "premise": premise,
        "problems": problems, "api_classes": api_classes, "session_closed": env.session.closed,
    }
    # let the tasks created by close() finish
    if pend:
        try:
            await asyncio.gather(*list(pend), return_exceptions=True)
        except Exception:
            pass
    return obs


def model_line(case):
    protos = ",".join("%d:%s" % (t, ".".join(k) if k else "-") for t, k in case["protos"])
    return "seq %s %s %s" % (case["listener"], protos, ",".join(case["events"]) or "-")


def canon_impl(obs):
    csv = lambda xs: ",".join(str(x) for x in xs) if xs else "-"
    return "%s N=%s C=%d K=%s P=%s B=%s R=%d" % (csv(obs["outs"]), csv(obs["N"]), obs["C"], csv(obs["K"]), obs["P"],
                                                  obs["B"] if obs["B"] is not None else "*", obs["R"])


def canon_model(ans, obs):
    parts = ans.split(" ")
    if len(parts) != 8:
        return ans
    outs, n, c, k, p, b, _s, r = parts
    if obs["B"] is None:      # not swept in this case
        b = "B=*"
    return " ".join([outs, n, c, k, p, b, r])


# ------------------------------------------------------------------------------ generators

def with_probes(events, probes):
    """after every event: a push update from the main protocol and one API call"""
    out = []
    for j, e in enumerate(events):
        out.append(e)
        out.append("p0")
        out.append(probes[j % len(probes)])
    return out


def alphabet(n, api):
    syms = []
    for i in range(n):
        syms += ["r%dc" % i, "r%dl%d" % (i, i + 1)]
    return syms + ["u"] + list(api)


def exhaustive_cases(shared, ctx):
    idx = shared["index"]
    top, held = "a%d" % idx[("AppleTV", "remote_control")], "a%d" % idx[("RemoteControl", "play")]
    feat = "a%d" % idx[("Features", "all_features")]
    probes = [held, top, feat]
    plans = [
        # (n protocols, max length, api symbols, [proto configs], listeners)
        (1, ctx.scale(5, 6), [top, held], [[(1, ())], [(0, ("c",))], [(1, ("l0",))]], "a"),
        (1, ctx.scale(5, 6), [top, held], [[(0, ("c",))]], "n"),
        (2, ctx.scale(5, 6), [held], [[(1, ("c",)), (0, ("l0",))], [(0, ()), (1, ("c",))]], "a"),
        (2, ctx.scale(4, 5), [top], [[(1, ("l0", "c")), (1, ())]], "n"),
        (3, ctx.scale(5, 6), [], [[(1, ("c",)), (0, ()), (2, ("l0",))]], "a"),
        (3, ctx.scale(4, 5), [top], [[(0, ()), (1, ("c",)), (1, ("c",))]], "a"),
    ]
    count = 0
    for n, maxlen, api, configs, listeners in plans:
        syms = alphabet(n, api)
        for protos in configs:
            for lmode in listeners:
                for length in range(0, maxlen + 1):
                    for seq in itertools.product(syms, repeat=length):
                        count += 1
                        yield {"listener": lmode, "protos": [list(p) for p in protos],
                               "reporters": DEFAULT_REPORTERS[:n], "events": ["s"] + with_probes(seq, probes),
                               "probe": 3, "sweep": length <= 3 or count % 4 == 0}


def random_cases(shared, ctx, count):
    rng = ctx.rng.fork("sampled")
    members = shared["table"]["members"]
    nmem = len(members)
    for _ in range(count):
        n = rng.randint(1, 3)
        protos = []
        for _i in range(n):
            kinds = [rng.choice(["c", "l%d" % rng.randrange(N_EXC)]) for _ in range(rng.choice([0, 0, 1, 1, 2]))]
            protos.append([rng.randint(0, 2), kinds])
        reporters = [rng.choice(["mrp", "direct", "companion", "airplay"]) for _ in range(n)]
        length = rng.randint(3, ctx.scale(8, 12))
        events = []
        for _j in range(length):
            x = rng.random()
            if x < 0.30:
                events.append("r%d%s" % (rng.randrange(n), rng.choice(["c", "l%d" % rng.randrange(N_EXC)])))
            elif x < 0.45:
                events.append("u")
            elif x < 0.75:
                m = rng.randrange(nmem)
                if members[m]["kind"] == "closeExempt":
                    events.append("u")
                else:
                    events.append("a%d" % m)
            elif x < 0.83:
                events.append(rng.choice(["s", "s", "t"]))
            else:
                events.append("p%d" % rng.randrange(n))
        lmode = rng.choice(["a", "a", "a", "n", "d"])
        yield {"listener": lmode, "protos": protos, "reporters": reporters, "events": events, "probe": False}


# ------------------------------------------------------------------------------ run

def make_shared():
    from pyatv import conf
    from pyatv.const import Protocol
    from tools.gen import c09 as gen

    table = gen.table()
    config = conf.AppleTV("127.0.0.1", "verif")
    config.add_service(conf.ManualService("id", Protocol.MRP, 0, {}))
    shared = {"table": table, "config": config, "n": 0,
              "excs": [RuntimeError("lost-%d" % i) for i in range(N_EXC)],
              "index": {(r["iface"], r["name"]): i for i, r in enumerate(table["members"])}}
    shared["args"] = dummy_args(table)
    shared["classes"] = make_classes()
    from pyatv.settings import Settings
    shared["settings"] = Settings()
    return shared


def safe_before_close(shared, case):
    """API calls made while the device is still open go to the dummy protocols; only let
    through the ones that cannot do anything but relay (the sampled generator may pick any
    member, so anything that is not a plain relay is replaced before the first close/report)."""
    table = shared["table"]["members"]
    allowed_ifaces = {"AppleTV", "RemoteControl", "Features", "Metadata", "Apps", "UserAccounts", "Keyboard", "TouchGestures", "Power", "Audio"}
    seen = False
    events = []
    for tok in case["events"]:
        if tok == "u" or (tok[0] == "r" and case["listener"] != "d"):
            seen = True          # (a report does not close the device when the listener was collected)
        if tok[0] == "a":
            row = table[int(tok[1:])]
            if row["iface"] == "PushUpdater" and row["name"] in ("start", "stop"):
                tok = "s" if row["name"] == "start" else "t"     # these two have an effect the model tracks
            elif not seen and (row["iface"] not in allowed_ifaces or row["name"] in ("connect",)):
                tok = "a%d" % shared["index"][("RemoteControl", "play")]
        events.append(tok)
    return dict(case, events=events)


def evaluate(ctx, shared, cases, judge=True, chunk=40000):
    """chunked so that a thorough run never holds more than `chunk` cases in memory"""
    it = iter(cases)
    while True:
        part = list(itertools.islice(it, chunk))
        if not part:
            return
        _evaluate(ctx, shared, part, judge)


def _evaluate(ctx, shared, cases, judge=True):
    import threading
    import warnings

    box = {}

    def ask():
        try:
            box["answers"] = ctx.lean([model_line(c) for c in cases])
        except BaseException as ex:  # re-raised in the caller's thread
            box["error"] = ex

    th = threading.Thread(target=ask)
    th.start()
    saved_show = warnings.showwarning
    warnings.showwarning = lambda *a, **k: None      # pyatv's `deprecated` wrapper warns on every call
    loop = asyncio.new_event_loop()
    asyncio.set_event_loop(loop)
    results = []
    try:
        for case in cases:
            try:
                obs = loop.run_until_complete(run_case(shared, case))
            except Exception as ex:  # the harness must survive changed code
                obs = {"outs": ["harness-exception:" + type(ex).__name__ + ":" + str(ex)[:80]], "N": [], "C": -1, "K": [], "P": "?",
                       "B": None, "R": 1, "escaped": [], "premise": False, "problems": [], "api_classes": [], "session_closed": 0}
            results.append((case, obs))
    finally:
        try:
            pending = [t for t in asyncio.all_tasks(loop) if not t.done()]
            for t in pending:
                t.cancel()
            if pending:
                loop.run_until_complete(asyncio.gather(*pending, return_exceptions=True))
        except Exception:
            pass
        asyncio.set_event_loop(None)
        loop.close()
        warnings.showwarning = saved_show
        th.join()
    if "error" in box:
        raise box["error"]
    answers = box["answers"]
    for (case, obs), ans in zip(results, answers):
        events = case["events"]
        core = events[1::case["probe"]] if case.get("probe") else events
        first = next((j for j, e in enumerate(core) if e[0] in "ru"), None)
        nontrivial = first is not None and first < len(core) - 1
        ctx.case([case["listener"], case["protos"], case["reporters"], events], nontrivial,
                 sample={"listener": case["listener"], "protos": case["protos"], "events": core, "notified": obs["N"], "outs": obs["outs"][:12]})
        ctx.note("protocols:%d" % len(case["protos"]))
        ctx.note("listener:" + case["listener"])
        ctx.note("len:%d" % len(core))
        for e in core:
            ctx.note("ev:" + ("report" if e[0] == "r" else "close" if e == "u" else "api" if e[0] == "a" else "push"))
        ctx.note("notifications:%d" % len(obs["N"]))
        if obs["B"] is not None:
            ctx.note("swept-after-close")
        for c in obs["api_classes"]:
            ctx.note("open-api-result:" + c)
        impl, model = canon_impl(obs), canon_model(ans, obs)
        if impl != model:
            ctx.disagree({k: case[k] for k in ("listener", "protos", "reporters", "events")}, impl, model, where="facade life cycle")
        ctx.validated()
        if case["listener"] == "d":
            ctx.note("observation:gc-listener-runs")
            if obs["premise"] and obs["B"] is not None and obs["B"].count("0") > 1:
                ctx.note("observation:gc-listener-device-not-blocked-after-report")
            continue
        if judge:
            for sig, what in obs["problems"]:
                ctx.fail(sig, {k: case[k] for k in ("listener", "protos", "reporters", "events")},
                         {"outs": obs["outs"], "notified": obs["N"], "close_log": obs["K"], "pending": obs["P"]},
                         "property C09 (blocked after close/loss, close() idempotent, pushes stop, at most one notification: the first)", what)


def handshake(ctx, shared):
    t = shared["table"]
    ans = ctx.lean(["table"])[0]
    mine = "%d %d %d %d" % (len(t["members"]), len(t["objects"]), t["push_obj"], t["max_calls"])
    if ans != mine:
        ctx.disagree({"op": "table"}, mine, ans, where="generated member table")
    ctx.validated()
    for row in t["members"]:
        ctx.note("member-kind:" + row["kind"])


def table_witnesses(shared):
    """Tie A replay: a member the table does not show as protected is called after close."""
    t = shared["table"]
    by_index = {i: r for i, r in enumerate(t["members"])}
    bad = []
    for i, r in by_index.items():
        if r["kind"] == "unguarded":
            bad.append(i)
        elif r["kind"] == "derived" and not all(by_index[j]["kind"] == "guarded" for j in r["via"]):
            bad.append(i)
    cases = []
    for m in bad:
        cases.append({"listener": "a", "protos": [[1, []]], "reporters": ["direct"], "events": ["u", "a%d" % m], "probe": False})
        cases.append({"listener": "a", "protos": [[1, []]], "reporters": ["direct"], "events": ["r0c", "a%d" % m], "probe": False})
    return cases


def run(ctx, only=None):
    shared = make_shared()
    if only is not None:
        evaluate(ctx, shared, only)
        return
    handshake(ctx, shared)
    if shared["table"]["max_calls"] != 1:
        ctx.note("max_calls:%s" % shared["table"]["max_calls"])
    evaluate(ctx, shared, table_witnesses(shared))
    # fixed regression shapes: loss during teardown, close during loss, all reporters
    fixed = []
    for reps in (["mrp", "direct", "companion"], ["airplay", "companion", "mrp"], ["direct", "airplay", "direct"]):
        for lmode in "and":
            fixed.append({"listener": lmode, "protos": [[1, ["c"]], [0, ["l1"]], [2, ["c", "l2"]]], "reporters": reps,
                          "events": ["s", "p0", "r1l3", "p0", "u", "r0c", "u", "r2l0", "p0", "s"], "probe": False})
            fixed.append({"listener": lmode, "protos": [[1, ["c"]], [0, ["l1"]], [2, []]], "reporters": reps,
                          "events": ["s", "p0", "u", "u", "r2l3", "p0", "t"], "probe": False})
    evaluate(ctx, shared, fixed)
    if not ctx.widened:
        evaluate(ctx, shared, exhaustive_cases(shared, ctx))
        ctx.exhaustive = True
    n = ctx.scale(1500, 60000)
    evaluate(ctx, shared, (safe_before_close(shared, c) for c in random_cases(shared, ctx, n)))


def widen(ctx):
    run(ctx)


def replay(ctx, failure):
    c2 = type(ctx)(ctx.prop, ctx.tier, ctx.seed, ctx.driver.driver_rel)
    case = dict(failure["case"], probe=False)
    run(c2, only=[case])
    return bool(c2.failures)


def shrink(ctx, failure):
    """drop events one at a time while the same oracle failure persists"""
    shared = make_shared()
    case = dict(failure["case"], probe=False)
    sig = failure["sig"]

    def fails(c):
        c2 = type(ctx)(ctx.prop, ctx.tier, ctx.seed, ctx.driver.driver_rel)
        c2.lean = lambda lines, driver=None: ["-"] * len(list(lines))
        evaluate(c2, shared, [c])
        return next((f for f in c2.failures if f["sig"] == sig), None)

    best = failure
    changed = True
    while changed:
        changed = False
        for j in range(len(case["events"])):
            trial = dict(case, events=case["events"][:j] + case["events"][j + 1:])
            f = fails(trial)
            if f:
                case, best, changed = trial, f, True
                break
    return best
